"""Per-property stage tables for /verif/check (see DESIGN.md §6).

A stage: name, engine (wb|race|sched|bb|fuzz), run (regexp of Go test names), quick/thorough = base number of
rapid cases per shard (each test scales it with its own weight), shards_quick/shards_thorough.
"""

ASSUME_WB = [
    "white-box harness: package snaps compiled from /repo with overlay test files; fake testingT runs Cleanup at the end of the simulated test",
    "a simulated process = every package-level variable of snaps, match and difflib re-initialised from its declaration (generated from the sources at build time) + mode variables (isCI, UPDATE_SNAPS) set directly; one in 16 generated cases is re-checked in a brand-new process of the test binary",
    "formatted text is computed by calling kr/pretty (a dependency, not code under test)",
]

PROPS = {
    "C01": dict(
        rule="case = pre-existing well-formed file(s) + 1-4 tests (prefix-related names) with 1-14 MatchSnapshot/MatchJSON/MatchYAML calls each; "
             "run 1 records with updating enabled, run 2 replays the same calls read-only (default / Update(false) / CI / UPDATE_SNAPS=clean) in a permuted test order, tests executed 1-3 times, optionally interleaved like parallel tests. "
             "Pre-existing files may have CRLF line ends; the first file may also be addressed through a second Config that spells its directory differently; values include defined string types. Lines include BOM-prefixed lines and lines of buffer-boundary lengths (4095-4097, 65535-65537). cross_build_replay stage (black box): a real test program records with a normal or -trimpath build and the other build replays read-only (CI or not, -count 1-2): no failure, no write. "
             "Round 6: between the runs the multi-entry files are re-presented without their final newline or with CRLF line ends; tests of other runners (Benchmark…, Fuzz…/seed#0, Example…, custom names). Round 7: text pools hold literal backslash-r / backslash-n texts, terminal control sequences, invisible characters (NBSP, ZWJ, RLM), dashed lines that are not the terminator, percent signs and the library's own marker texts. Round 9: lines beyond 1 MiB and 4 MiB (now and then) among the long lines. non-trivial = the case contains a terminator/escape line, blank line, edge newline, empty body, header-looking line, invalid UTF-8, a line > 64 KiB, "
             ">= 10 calls in one test, >= 2 entry kinds in one file, a structured Go value, or pre-existing entries; distinct = distinct canonical JSON",
        assumptions=ASSUME_WB + ["carriage return at the end of a line (documented limitation) is excluded by construction and counted"],
        stages=[dict(name="replay", run="^TestC01_", quick=1000, thorough=6000, shards_quick=4, shards_thorough=16),
                dict(name="cross_build_replay", engine="bb", run="^TestC01BB_", quick=40, thorough=600, shards_quick=4, shards_thorough=16, trimpath=True),
                dict(name="fuzz", engine="fuzz", target="FuzzC01Store", run="FuzzC01Store", fuzztime=60, thorough_only=True)],
    ),
    "C02": dict(
        rule="case = (stored value, received value) whose formatted texts differ, API in all five, second process in a non-updating mode "
             "(default / Update(false) / CI / UPDATE_SNAPS=clean / other strings), colours on or off. Pairs come from 1-2 edits of a hostile text "
             "(byte flip/insert/delete, edge newline, whitespace, invalid UTF-8 swap, U+FFFD vs invalid byte, line dup/delete/replace/move), independent texts, "
             "JSON value mutations and YAML text edits. Round 6: UPDATE_SNAPS reaches the library through the environment (spellings false/0/FALSE/f/1/TRUE/t/yes); the stored file loses its final newline or gets CRLF line ends between the processes. Round 7: pairs that differ only in terminal control sequences, only in an invisible character / blank vs NBSP, by a label glued in front of the first line, or by everything from a `---…` line on being cut. Round 8: a test in which 11-40 calls differ (all five APIs, mixed), one or two executions: every call fails. non-trivial = pair differs only in edge newlines, only in whitespace, only in invalid UTF-8, in exactly one byte, "
             "takes the inline (coloured single-line) path, or is a JSON value change; distinct = distinct canonical JSON. "
             "huge_line_counts stage: enumerated descriptor cases - texts of N distinct lines with N on 0x7FFF/0x8001, 0xD7FF-0xE001, 0xFFFD-0x10001, received = last line(s) changed / two lines swapped / first line changed",
        assumptions=ASSUME_WB + ["known finding K1 (`---` vs `/-/-/-/` lines) is excluded by construction from the main campaign and probed by its own generator"],
        stages=[
            dict(name="changed", run="^TestC02_Changed$", quick=1500, thorough=20000, shards_quick=4, shards_thorough=16),
            dict(name="huge_line_counts", run="^TestC02_HugeLineCounts$", quick=1, thorough=1, shards_quick=4, shards_thorough=16),
            dict(name="many_mismatches", run="^TestC02_ManyMismatches$", quick=1, thorough=1, shards_quick=4, shards_thorough=8),
            dict(name="k1probe", run="^TestC02K1_", quick=1500, thorough=20000, shards_quick=1, shards_thorough=1),
            dict(name="fuzz", engine="fuzz", target="FuzzC02Changed", run="FuzzC02Changed", fuzztime=60, thorough_only=True),
        ],
    ),
    "C03": dict(
        rule="case = history: 1-4 tests (prefix-related names, fixed call programs of 1-13 slots over 1-2 files) x 1-3 processes (mode: default / UPDATE_SNAPS=true / other / CI) "
             "x 1-4 executions per process (re-executions, partial executions) whose calls are interleaved like parallel tests, with failing calls (invalid JSON/YAML, failing matcher), "
             "per-call Update options, pre-existing foreign entries and optionally a conversion of all files to CRLF line ends between two processes, single calls through a differently spelled directory; after EVERY call the observed outcome is compared with a slot model and both files are re-parsed with the reference parser. "
             "Round 6: tests of other runners (Benchmark…, Fuzz…/seed#0, Example…, custom names) whose entries hold lines that equal ids of other slots. Round 8: conflict-marker lines as content; the fake T answers Failed()/Skipped() like a *testing.T. Round 9: MatchSnapshot(t) without values right before a call (a warning, no ordinal). non-trivial = >= 2 tests and at least one of: prefix-related names, re-execution, interleaving, calls after a failing call, >= 10 calls, header-like body, per-call update option; "
             "distinct = distinct canonical JSON of the history. concurrent_slots stage: the C06 scenario/schedule generator on the controlled scheduler (2-4 tests sharing a file, 0-3 preemptions): "
             "every call addresses its own slot and no slot is lost or reverted by another test's concurrent write",
        assumptions=ASSUME_WB + ["the history stage interleaves calls one at a time; preemption inside a call is explored by the concurrent_slots stage (statement granularity) and exhaustively by C06"],
        stages=[dict(name="history", run="^TestC03_", quick=600, thorough=5000, shards_quick=4, shards_thorough=16),
                dict(name="concurrent_slots", engine="sched", run="^TestC03_ConcurrentSlots$", quick=200, thorough=2000, shards_quick=4, shards_thorough=16),
                dict(name="other_tests", engine="bb", run="^TestC03BB_", quick=40, thorough=600, shards_quick=4, shards_thorough=16, trimpath=True)],
    ),
    "C04": dict(
        rule="case = file recorded by a first process (1-3 tests, 1-12 calls each over all five APIs, plus foreign pre-existing entries), a second process with updating enabled "
             "(UPDATE_SNAPS=true, or Update(true) under any UPDATE_SNAPS) in which a generated subset of calls changes value (shorter, longer, empty, terminator/header-like, multi-line; same length; multi-KiB), "
             "optionally after the recorded file was converted to CRLF line ends, optionally with other JSON options (indent/width/key sorting) in the update run than in the recording run (expected text computed with tidwall/pretty), "
             "then a read-only process. Checked per call: outcome, no write at all for unchanged values (mtime), only the addressed file written, entry list re-parsed with the reference parser "
             "(no residue, others byte-identical and in place), standalone files equal the new formatted value. Round 6: calls that the update run rejects before the comparison (invalid JSON/YAML text, matcher on a missing path) between calls that rewrite their entries; tests of other runners. Round 8: `<file>.tmp` (longer than the file) lies next to the snapshot file; conflict-marker lines as content. Round 9: values with lines of 64 KiB … 4 MiB. non-trivial = a changed entry that is shorter, or >= 2 changed entries, "
             "or a changed non-last entry, or a standalone update; distinct = distinct canonical JSON",
        assumptions=ASSUME_WB + ["'no write' is observed through mtimes: every file is aged to a fixed past instant before each call"],
        stages=[dict(name="update", run="^TestC04_", quick=600, thorough=5000, shards_quick=4, shards_thorough=16)],
    ),
    "C05": dict(
        rule="the full table CI{on,off} x Update option{unset,true,false} x UPDATE_SNAPS{unset,true,clean,other string} x Clean sort{on,off} x 5 entry points x entry state{missing,equal,different} "
             "x obsolete items{present,absent} = 1440 cells, enumerated completely; per cell the values and the 'other' string come from seeded generators. Each cell = a preparation run and one real process of a "
             "data-driven test program (real environment variables, real TestMain + snaps.Clean); the observed call outcome and the directory delta are compared with the statement's table written as a pure function. "
             "The pre-existing snapshot is presented as the library wrote it, or (every 4th multi-entry cell) converted to CRLF line ends, or (every 3rd standalone cell with an existing file) as a symbolic link to the real file, or (cells without sort/obsolete items) with a second entry of an id that occurs already; CI cells are recognised as CI through one of eight variables (CI, BUILD_NUMBER, RUN_ID, CI_NAME, CONTINUOUS_INTEGRATION, BUILD_ID, GITHUB_ACTIONS); every fifth cell runs with a foreign working directory. "
             "Round 6: sparse-state table (720 cells): snapshot directory absent, present but EMPTY, or an addressed file that only holds entries of tests that no longer exist, x CI x Update option x UPDATE_SNAPS x sort x API. Round 7: values `---`, `---\\n`, empty (stored and received) in the table. Round 8: cells run with -test.shuffle=on / a seed; cells in which the test has already failed (a missing snapshot through Update(false)) before the call of the cell. Round 9: cells run with -test.count=2 (the second execution passes after added/updated, fails again where nothing may be written). non-trivial = cells in which a create, rewrite, delete or sort is requested by the situation; every cell is distinct",
        assumptions=["black-box: scenario program compiled against /repo with `replace`, executed with an explicit minimal environment", "UPDATE_SNAPS and CI are read by the real init code of the process"],
        stages=[dict(name="table", engine="bb", run="^TestC05_", quick=1, thorough=1, shards_quick=8, shards_thorough=16)],
    ),
    "C06": dict(
        rule="schedules: package snaps is rebuilt with a yield before every statement and cooperative mutexes; a case = concurrent scenario (2-4 tests with distinct, prefix-related names sharing one file, 1-3 calls each of "
             "{create, match, mismatch without update, update}, foreign pre-existing entries, shuffled initial order) x schedule (0-3 preemptions at yields placed with weight on file-system/lock statements, tie-break choices). "
             "values include entries of 4800 and 9000 bytes (beyond 4096/8192 buffer sizes); calls include standalone snapshots; scenarios without pre-existing content may start from a snapshot directory three missing levels deep. exhaustive stage: every schedule with <= 2 preemptions of four fixed two-task scenarios (quick: the first at every yield, the others at yields in front of file-system/lock/registry statements; thorough: every yield); the cooperative RWMutex models writer preference (recursive read locks deadlock as in sync.RWMutex); "
             "exhaustive_big: every single preemption (thorough: every pair) of two scenarios with such big entries. Oracle: every call gets its serial outcome; the final file parses, keeps the initial entries in order with "
             "updated bodies, holds exactly one entry per created slot; no deadlock. race stage: generated goroutine mixes of the five APIs, Skip* and one shared Config under the race detector. "
             "shared_filename stages: standalone calls of 2-4 parallel tests through ONE Config with an explicit Filename (they share the ordinal sequence golden_1, golden_2, ...), from nothing (values all different) or next to 1-3 existing files (all values equal), mixed with multi-entry calls; oracle = what every serial order of the calls gives: every ordinal 1..N handed out exactly once (file k exists for all k <= N, every value in exactly one file, the values of one test at increasing ordinals, min(N, existing) calls pass and the rest are added); generated schedules with 0-3 preemptions plus every schedule with <= 2 preemptions of two fixed scenarios (quick: pairs at file-system/lock/registry yields; thorough: every pair). "
             "non-trivial = >= 1 preemption and >= 2 writing tasks (schedules); >= 2 APIs (race); distinct = distinct canonical JSON",
        assumptions=["file operations between two yields are atomic (statement granularity); kernel-level partial writes are out of reach", "exhaustive only up to two preemptions on small scenarios",
                     "a race report is always a real race; absence is limited to executed accesses"],
        stages=[
            dict(name="exhaustive", engine="sched", run="^TestC06_Exhaustive2$", quick=1, thorough=1, shards_quick=8, shards_thorough=16),
            dict(name="exhaustive_big", engine="sched", run="^TestC06_ExhaustiveBig$", quick=1, thorough=1, shards_quick=4, shards_thorough=16),
            dict(name="schedules", engine="sched", run="^TestC06_Schedules$", quick=400, thorough=4000, shards_quick=4, shards_thorough=16),
            dict(name="exhaustive3", engine="sched", run="^TestC06_Exhaustive3$", quick=1, thorough=1, shards_thorough=16, thorough_only=True),
            dict(name="shared_filename_exhaustive", engine="sched", run="^TestC06_ExhaustiveShared$", quick=1, thorough=1, shards_quick=8, shards_thorough=16),
            dict(name="shared_filename", engine="sched", run="^TestC06_SharedFilename$", quick=300, thorough=3000, shards_quick=4, shards_thorough=16),
            dict(name="race", engine="race", run="^TestC06Race_", quick=100, thorough=1500, shards_quick=2, shards_thorough=8, expect_race_free=True),
        ],
    ),
    "C07": dict(
        rule="case = test program (1-5 tests/subtests, 0-12 calls each over all five APIs and 1-3 configs incl. custom Filename/Ext/second dir), -count 1-3, -run in {empty, Test, ^Test, exact alternation, .}, "
             "pre-existing directory from a recording run plus stale entries at random positions, stale files, unrelated files, sub-directories; some slots are first added in the run itself; "
             "Clean in every mode x sort; further dimensions: an addressed file converted to CRLF line ends, a file with an unterminated last entry, main directory names with glob metacharacters next to sibling directories, "
             "-test.cpu lists with empty elements, 36-60 addressed files while RLIMIT_NOFILE leaves 24 free descriptors during Clean, very long lines. real_runner stage: real -test.count/-test.run/-test.cpu. "
             "Oracle: every slot addressed in this process keeps its entry/standalone file byte-identical (line ends aside), is never listed, and a read-only replay passes. "
             "Round 6: calls rejected before the comparison inside the run (still the k-th call), a Config with Update(false) on a never-recorded snapshot whose directory never comes into existence (visited all the same). Round 8: TMPDIR on another file system during Clean; tests that end through plain t.Skip; the run's configs carry Update(true/false); every recorded slot must lie where the naming rule puts it; Filename `v1.snapshots`, Ext `_golden`; sub test names with : ? * \" < > |. Round 9: snaps.Skip(t) without a reason; programs that make only standalone calls. non-trivial = -count > 1, or a test with >= 10 calls, or standalone and multi-entry mixed, or stale neighbours present; distinct = distinct canonical JSON",
        assumptions=ASSUME_WB + ["Clean is the exported function driven in-process with test.run/test.count set through the flag package; -run values always select every executed test"],
        stages=[dict(name="clean_keeps", run="^TestC07_", quick=400, thorough=4000, shards_quick=4, shards_thorough=16),
                dict(name="real_runner", engine="bb", run="^TestC07BB_", quick=30, thorough=400, shards_quick=4, shards_thorough=16)],
    ),
    "C08": dict(
        rule="case = real test program (2-5 top-level tests with prefix/substring-related names TestAlpha/TestAlphaBeta/TestAl, TestBeta/TestB, ..., generated subtests up to depth 2, calls under default, shared custom Filename, custom Ext "
             "and standalone configs) recorded once; second run with a generated subset of tests calling snaps.Skip/Skipf/SkipNow (before any or after some calls) and/or a generated -test.run (a pool of names, substrings, alternations, and patterns derived from the program's own test names: anchored per element, end-anchored, quoted or not, cut short; "
             "multi-level patterns, anchors, patterns matching only a subtest name or a digit), Clean in report/clean mode x sort, plus stale entries of prefix siblings and children of skipped tests. "
             "The program itself reports which tests started (the real runner is the oracle). Oracle: every item recorded for a test (or part of a test) that did not run survives byte-identically and is not listed; "
             "conversely (no -run) stale entries not protected by a skip are reported/removed. Losses matching the signatures of known findings K2-K5 are exempted and counted; K2-K5 are probed by minimal programs. "
             "Round 6: -count=2/3 with tests that call snaps.Skip* only from their k-th execution on (plus a test that skips every time), everything in one shared file: nothing listed, nothing removed. Round 7: -run groups of three and more alternatives (`^(TestAlpha|TestB|TestGamma)$`, also per level); a test file that holds test-like declarations only inside a block comment and a raw string. Round 8: a snapshot directory nested in the default one whose tests all call snaps.Skip*; a file named after alpha_test.go shared by tests of every test file. Round 9: snaps.Skip(t) without a reason; runs in which every test of the program skips (no Match* call at all). non-trivial = a skip or a -run filter is present; distinct = distinct canonical JSON",
        assumptions=["black-box: scenario program compiled against /repo; snapshot directory is the program's own __snapshots__ (cleaned between cases)",
                     "known findings K2-K5 (DESIGN §7) are exempted by predicate: sole-owner files of skipped tests, whole-id regexp, non-default file names under -run, file heuristic"],
        stages=[
            dict(name="skipfilter", engine="bb", run="^TestC08_", quick=60, thorough=1500, shards_quick=8, shards_thorough=16),
            dict(name="kprobes", engine="bb", run="^TestC08K", quick=1, thorough=1, shards_quick=1, shards_thorough=1),
        ],
    ),
    "C09": dict(
        rule="case = as C07 but -run empty, with skip-protected tests (snaps.Skip/Skipf/SkipNow before any or after some calls, always in files shared with running tests), "
             "stale entries (absent tests, ordinals beyond the calls), stale multi-entry and standalone files, unrelated files, sub-directories (one named sub.snap), an unaddressed directory, -count 1-3, all modes x sort, "
             "directory names with glob metacharacters + siblings, -test.cpu lists, more addressed files (36-60) than free descriptors (24) during Clean, a read-only tree during Clean (file-system uid of the thread unprivileged; scenarios in which Clean has to write are excluded). "
             "Skip* never return (as with a real testing.T). Oracle: reported set contains every stale item of the model, no addressed item and no entry of a skip-protected test; removed iff reported and deletion allowed; everything else byte- and mtime-identical. "
             "Round 6: rejected calls and never-created visited directories as in C07. Round 8: as C07 (foreign TMPDIR, plain t.Skip, Update options in the run, name shapes). Round 9: as C07 (bare Skip, standalone-only programs: stale standalone files must still be reported). non-trivial = at least one stale entry and one stale file present; distinct = distinct canonical JSON",
        assumptions=ASSUME_WB + ["skip-protected entries are exempt from the completeness demand (C08 judges them)"],
        stages=[dict(name="clean_reports", run="^TestC09_", quick=400, thorough=5000, shards_quick=4, shards_thorough=16)],
    ),
    "C10": dict(
        rule="case = 1-2 well-formed files rendered by the reference renderer (0-25 entries: per test live ordinals 1..n plus stale ordinals beyond, natural-order traps like T2/T10, "
             "random order, bodies with blank/terminator-like/header-like lines), mode (default/clean/true/CI/other) x sort on/off. A process replays every live entry through MatchSnapshot, "
             "then Clean runs. Oracles: survivors = exact multiset of (id, body); order non-decreasing under an independent natural comparator when sorting (total-order ids); relative order kept otherwise; "
             "no write when nothing to prune/sort (mtime); second Clean is a no-op; a second initial permutation sorts to identical bytes. "
             "Round 7: files with 0-3 extra blank lines in front of entries and at the end; entries of tests that call snaps.Skip in this process (neither replayed nor stale) survive every prune and sort. Round 8: TMPDIR on another file system; file names with `.snap` inside the name, Ext without a dot (`_golden`, `-linux`, `json`), Ext `.orig`. non-trivial = >= 3 entries and (unsorted with sort on, or stale entry with deletion on, or special body lines); distinct = distinct canonical JSON",
        assumptions=ASSUME_WB + ["ids with zero-padded digit runs (natural order not total) are only checked for content preservation, not for order"],
        stages=[dict(name="clean_rewrite", run="^TestC10_", quick=500, thorough=5000, shards_quick=4, shards_thorough=16)],
    ),
    "C14": dict(
        rule="case = JSON tree (distinct keys incl. empty/unicode/escaped/dotted, numbers of all shapes as literals, escapes, depth <= 5) x presentations (insignificant whitespace incl. CR/TAB, member permutation) "
             "x input form (string/[]byte/Go value) x options (default, or Width/Indent/SortKeys) x API (MatchJSON/MatchStandaloneJSON), plus one invalid text (truncation, dropped quote/brace, trailing comma, "
             "bad literals, non-JSON whitespace padding, trailing data) judged invalid by encoding/json. Oracles: relations (1)-(5) of DESIGN §6/C14. Round 6: typed nil containers and pointers ([]any(nil), map[string]any(nil), (*int)(nil), zero structs with nil slices/maps) inside Go values: stored like their standard encoding (null). Round 7: an invalid text (stray brace, second document, trailing text, lost colon) when the slot already holds the valid document, in default / update / CI mode: rejected, nothing written; Go values implementing error, fmt.Stringer, encoding.TextMarshaler (also as map keys), time.Time / time.Duration. Round 8: a valid document that differs from the stored one in the LAST digit of a 16+ digit number (else in one digit/letter) is reported read-only and written when updating. Round 9: top-level strings whose content is JSON text (`\"{}\"`, `\"[1]\"`). non-trivial = every case (each carries an invalid input); "
             "classes record depth >= 2, exotic numbers, escapes, option kinds; distinct = distinct canonical JSON. Further stages inside the case: one []byte buffer rewritten in place with same-length documents between assertions "
             "(each must store what a fresh process stores). TestC14_DeepNesting: enumerated documents nested 1..10002 levels (thorough ..65536; arrays <= 4096 quick / 10002 thorough because the pretty printer is quadratic), three input forms, "
             "oracle independent of encoding/json (stored text minus whitespace == input)",
        assumptions=ASSUME_WB + ["validity oracle is encoding/json.Valid on valid-UTF-8 texts; duplicate member names and a Go string/[]byte passed as 'value' are outside the domain"],
        stages=[dict(name="json", run="^TestC14_", quick=500, thorough=8000, shards_quick=4, shards_thorough=16)],
    ),
    "C15": dict(
        rule="case = JSON tree or block-YAML tree + 1-4 matchers (Any with default/custom placeholders of every JSON type, shorter and longer than the value; Type with the node's type; Custom returning a value) "
             "on existing paths chosen by walking the tree (keys needing gjson escapes, array elements, nested; the same path twice; a parent after its child and a child after its parent), input as string/[]byte/Go value, "
             "through MatchJSON / MatchStandaloneJSON / MatchYAML, SortKeys on and off; placeholders related to the replaced value (the value itself, a string spelling its JSON source, the quoted source); options chained or applied as statements; "
             "keys `$`, `a:b`, `x/y`; tables of records addressed through gjson `#` / `#(query)` and YAML `[*]` paths; YAML string placeholders that are not safe plain scalars; Custom callbacks that scrub their argument in place; the matcher VALUES are also reused after warm-up documents (a later listed path removed, the first path removed, empty container) and must store the same. Oracle: a reported error (trivial, counted in classes) or the stored document equals the model set(tree, path, placeholder) applied left to right "
             "as an ordered tree, Custom callbacks observe the model's current value, the caller's bytes are unchanged. Round 7: YAML literal block scalars (trailing blanks included) as values, targets and neighbours. Round 8: keys `ok?`, `2026`, YAML keys `200`, `8080`; strings mentioning `interface {}`. non-trivial = >= 2 matchers, path depth >= 2, key needing escape, array element, or "
             "placeholder not longer than the value with []byte input; distinct = distinct canonical JSON",
        assumptions=ASSUME_WB + ["YAML output is parsed with goccy/go-yaml (ordered maps): the only YAML parser available offline", "a reported matcher error is a legal outcome"],
        stages=[dict(name="matchers", run="^TestC15_", quick=800, thorough=10000, shards_quick=4, shards_thorough=16),
                dict(name="k6probe", run="^TestC15K6_", quick=1, thorough=1, shards_quick=1, shards_thorough=1)],
    ),
    "C16": dict(
        rule="case = document D (JSON tree or block YAML), 1-3 pairwise non-nested masked paths with matchers satisfiable on D (Any with plain/non-ASCII/quoted placeholders, Type[T] of the node's type, Custom returning a constant), "
             "D' = D with every masked value replaced by another value satisfying the same matcher (other scalars, null, long strings, containers), D'' = D or D' with one uncovered scalar changed; "
             "merged form: all masked paths in ONE Any with ErrOnMissingPath(false), interleaved with paths that do not exist and are textual prefixes / extensions of the existing ones (sibling keys sharing a prefix); keys `$`, `a:b`; "
             "matcher values reused after a warm-up document; tables masked through `#` / `#(query)` / `[*]` paths (empty arrays as masked values, records lacking the member); YAML input optionally a stream holding the document twice; changed numbers include the integer neighbour (last digit +-1, ids beyond 2^53). "
             "Oracle: stored(D) == stored(D') byte-for-byte, each replays read-only against the other's snapshot without writing, D'' reports exactly one error. "
             "Round 6: flat records masked by ONE Type matcher listing 3-6 paths out of document order with values of 1-15 digits / 0-20 bytes (every replacement shifts the rest by another amount); enumerated documents of 10 050-33 000 rows (json, sjson, yaml) differing at row 3, middle, 10 001 or last. Round 7: JSON input in the ASCII-only spelling (every non-ASCII character of keys and strings as \\uXXXX); YAML literal block scalars whose variants differ only in blanks in front of a line break. Round 8: single-quoted YAML strings holding ` #` and `: `; unmasked strings mentioning `interface {}` next to Type placeholders. Round 9: Custom callbacks that return nil (stored as null). non-trivial = at least one masked path and D' differs textually from D; the D'' class is counted separately; distinct = distinct canonical JSON",
        assumptions=ASSUME_WB + ["Type[any] is excluded (the placeholder records the dynamic type by design)", "cases on which a matcher reports an error on D or D' are counted as trivial"],
        stages=[dict(name="masked", run="^TestC16_", quick=600, thorough=8000, shards_quick=4, shards_thorough=16)],
    ),
    "C17": dict(
        rule="case = document + 1-5 matchers of which a generated subset fails (missing path, wrong type for Type, Custom returning an error) in any order, some missing paths under ErrOnMissingPath(false), "
             "11-14 failing matchers in one call, YAML nulls (null, ~, bare key) as wrong-type targets, matcher pairs where the second fails only because the first (satisfiable) one replaced its target (parent then child; the same Type twice), options chained or applied as statements, "
             "mode in {create allowed, update enabled with an existing different entry, Update(false), CI}, JSON / standalone JSON / YAML, 0-2 calls before and 1-3 calls after. "
             "Oracle: one failure naming match.<Name>(\"<path>\") for every failing matcher, nothing written (mtime), later calls land in slots k+1...; with only tolerated missing paths the call proceeds per mode. "
             "Round 6: a matcher that lists a missing path first and an existing path second fails as a whole - the next, satisfiable matcher on that path sees the original value; satisfiable matchers must NOT be named. Round 8: matchers that were relaxed (ErrOnMissingPath(false)) before their final strict setting; the slot already holds exactly the document (matchers added to a test that has its snapshot). Round 9: the empty path and existing paths with a blank in front / behind (JSON: they address nothing); ONE Type matcher listing a wrong-typed path and a missing path (both named). non-trivial = a failing and a satisfiable matcher together, or update-enabled mode with an existing entry, or a tolerated missing path; distinct = distinct canonical JSON",
        assumptions=ASSUME_WB,
        stages=[dict(name="failures", run="^TestC17_", quick=600, thorough=8000, shards_quick=4, shards_thorough=16)],
    ),
    "C18": dict(
        rule="case = YAML text from a grammar (block mappings/sequences, flow collections incl. header-looking `[TestA - 2]`, comments, quoted/plain/block scalars with `---` and `/-/-/-/` lines, "
             "multi-document streams with ---/... (separators also with trailing blanks, tabs or a comment), %YAML directive, anchors/aliases, trailing blank lines, with/without final newline, optional leading BOM; LF only), split by the YAML library itself into valid and invalid; "
             "constructed invalid inputs (unclosed flow/quote, tab indentation, undefined alias, duplicate keys next to merge keys); Go values of string/byte-like kinds ([]uint8-kind enums, named strings, net.IP) stored as the YAML library marshals them with the fixed encoder options; Go values (nested maps with varied key order, tagged structs, multi-line strings); documents with a matcher (final newline). "
             "Oracle: stored body == escape(input) byte-for-byte, read-only replay passes without writing; Go values store identical text in two processes; invalid = one `invalid yaml` failure, nothing written, ordinal consumed. "
             "Round 6: the document replaces another document stored under the id (update run, rewrite path). Round 7: JSON-syntax documents with duplicate keys are invalid YAML; after recording, a Clean run that prunes an obsolete neighbour rewrites the file - the document is still stored verbatim. Round 8: flow collections broken over TAB-indented lines (valid YAML); Go values in which one map / pointer is reachable along two paths. Round 9: an empty, non-nil matcher slice passed with a document (stored verbatim like with no matchers). non-trivial = document with a separator line, comment, header-looking line, terminator in a block scalar, no final newline or trailing blank lines; or a Go value; or an invalid input; distinct = distinct canonical JSON",
        assumptions=ASSUME_WB + ["validity is delegated to goccy/go-yaml (only used to split the domain); the verbatim clause is judged on bytes"],
        stages=[dict(name="yaml", run="^TestC18_", quick=800, thorough=10000, shards_quick=4, shards_thorough=16)],
    ),
    "C19": dict(
        rule="case = one test (names with '/', '%', unicode) making 1-12 calls (MatchStandaloneSnapshot with arbitrary bytes incl. CR/CRLF/`---`/NUL/invalid UTF-8 and structured values, "
             "MatchStandaloneJSON, interleaved MatchSnapshot, MatchStandaloneJSON calls that are rejected in every process (invalid JSON, failing matcher) and still are the k-th call) under configs with/without Filename/Ext (also containing '%'), executed 1-3 times per process. Four processes: record (exact file set and bytes), "
             "read-only replay (passes, no write), changed values without update (one error, untouched), update (file replaced wholesale, unchanged files not written); values of 64 KiB and more with a one-byte change. "
             "concurrent_standalone stage: scenarios x schedules on the controlled scheduler with standalone calls of 2-4 live tests (names from the pool incl. case variants), every schedule with <= 2 preemptions at interesting sites for two tests whose names differ in case only. real_program stage (black box): a real test program, also checked out under a path with '%' and a blank, normal and -trimpath builds: file k holds exactly value k and replays on CI. "
             "Round 6: a sibling test (name + B/0//s/_/#01, or two 246-byte names differing in their last bytes) stores one standalone snapshot into the same directory before the test runs: its file is its own in every process. Round 7: text that is not JSON (NaN, truncated, trailing data) together with a matcher whose path a lenient reader resolves: rejected like every invalid input. Round 8: configs with JSON options; the file must be byte-for-byte tidwall/pretty(options) of the text or of encoding/json's encoding of the value. non-trivial = a value with CR, a terminator-like line, an empty value, >= 2 executions, >= 10 calls, or an update to a shorter value; distinct = distinct canonical JSON",
        assumptions=ASSUME_WB + ["standalone ordinals count per resolved file pattern (README: _1.snap and _1.snap.html for different Ext)"],
        stages=[dict(name="standalone", run="^TestC19_", quick=800, thorough=10000, shards_quick=4, shards_thorough=16),
                dict(name="concurrent_standalone", engine="sched", run="^TestC19_(ConcurrentStandalone|ExhaustiveCaseNames)$", quick=150, thorough=1500, shards_quick=4, shards_thorough=16),
                dict(name="real_program", engine="bb", run="^TestC19BB_", quick=40, thorough=600, shards_quick=4, shards_thorough=16, trimpath=True)],
    ),
    "C20": dict(
        rule="sequential: histories as C03 (every process executes a test at most once) with all outcome classes (passed, added, updated, failed by mismatch / invalid input / failing matcher / missing on CI / "
             "directory that cannot be created), snaps.Skip* calls, Clean at the end of every process in any mode x sort with stale entries and unaddressed files; oracle: per call exactly one outcome signal "
             "equal to the model's class, summary totals == harness tallies, obsolete lists == model's stale set == what Clean removed. concurrent: 2-8 goroutines (distinct names, one shared file) with predicted "
             "classes, then the same summary oracle. all-entry-points scenario: clean scenarios of C07/C09 (incl. read-only tree, descriptor limit) with totals and the obsolete FILE list compared. Round 6-8: the fake test value never returns from Skip*, and answers Failed() / Skipped() like a *testing.T (a test stays failed once Error was called); tests ending through plain t.Skip. non-trivial = >= 2 failure/skip kinds or >= 2 processes (sequential), >= 3 outcome kinds (concurrent); distinct = distinct canonical JSON",
        assumptions=ASSUME_WB + ["MatchSnapshot without values (documented warning) is excluded", "the summary grammar parsed is the NO_COLOR one"],
        stages=[dict(name="summary", run="^TestC20_", quick=500, thorough=5000, shards_quick=4, shards_thorough=16),
                dict(name="real_process", engine="bb", run="^TestC20BB_", quick=30, thorough=400, shards_quick=4, shards_thorough=16),
                dict(name="race", engine="race", run="^TestC20_Concurrent$", quick=200, thorough=3000, shards_quick=2, shards_thorough=8, expect_race_free=True)],
    ),
    "C11": dict(
        rule="case = one test function of a real test program (root package, sub, sub/deep/er) whose body is a generated tree of 1-4 steps per level: calls of the five entry points with Dir in {unset, relative, nested relative, ../up, "
             "./x/../x, absolute}, Filename (incl. '%', dots, unicode, spaces), Ext (incl. '.snap', '.%s'), package-level functions, call shapes {direct, closure, helper in the test file, helper in a non-test file, helper in another package} "
             "with 0-100 extra frames, inside subtests / nested subtests with names containing '%', '/', spaces, rejected calls (invalid JSON/YAML) that still consume their ordinal, optionally a second test function from another test file in the same process, subtests whose function is declared in a NON-test file (suite shape); odd shards run the program from a directory with '%' and a blank in its name. "
             "Every case is executed nine times: normal / -trimpath build x cwd = package dir / foreign cwd x GOFLAGS in the environment (unset, -trimpath, unrelated, -trimpath=false, -gcflags=-trimpath=/src), and once with -test.count=2; each time the exact set of created files (and the entry ids inside multi-entry files) must equal the statement's formula computed from the known source path. "
             "Round 6: Dir explicitly empty and `.`, an absolute Dir 240 bytes deep (whole paths beyond 259 bytes), a 72-byte sub test name. Round 8: sub test names with : ? * \" < > | (standalone names change only `/`). Round 9: Filename `users.snap`, `report.snap.txt`, ` pad`, `pad `; Ext `.v1 `, `_golden`; Dir with a blank at its edge. Round 7: calls made through an assertion helper that lives in a NON-test file called testing.go inside a directory ending in `testing`. every case is non-trivial (nine build/cwd/GOFLAGS/-count variants); classes record option kinds, shapes, helper depth; distinct = distinct canonical JSON",
        assumptions=["the file name is asserted only when the first *_test.go frame is the file that declares the test function (the scenario program is built that way)", "-trimpath is asserted for cwd = package directory only (documented limitation otherwise)"],
        stages=[dict(name="location", engine="bb", run="^TestC11_", quick=60, thorough=1500, shards_quick=8, shards_thorough=16, trimpath=True)],
    ),
    "C12": dict(
        rule="differential: a sequence of 1-8 calls (five APIs) through shared Configs A, B (B built from the SAME option values as A plus overrides) and configs built late, "
             "versus the same sequence with a brand-new Config (fresh option values) per call; outcomes and the resulting directory trees must be identical; a witness document through A before and after the sequence stores the same; "
             "optionally the snapshot directory is removed between two calls: the remaining calls must then behave as in a process that makes only them. "
             "test_order stage (black box): 2-3 test functions of a real test program (different test files, helpers in non-test files and another package) - the snapshots of test X when all tests run == when -run ^X$ runs alone. "
             "race stage: 2-4 goroutines x 1-5 calls through ONE shared Config under the race detector. "
             "Round 6: in every Config the harness builds, the caller's option slice is overwritten and reused for another WithConfig call after the Config was built. Round 7: JSON documents of equal length passed as []byte from ONE buffer the test keeps (input form bytes_reused). Round 8: Ext without a leading dot (`json`, `_golden`) among the option values. Round 9: Config A built as WithConfig() with the options applied to it afterwards; B as a struct copy of A with overrides applied afterwards; a witness through a Config built from a directory only. non-trivial = MatchStandaloneJSON followed by another API on a Config without Ext, or >= 3 APIs, or a JSON option overridden in B, or the directory removed (differential); two test files (test_order); >= 2 APIs (race); distinct = distinct canonical JSON",
        assumptions=ASSUME_WB + ["package-level Match* functions are exercised by the black-box engine only (they derive the directory from the source location)",
                                 "a race report is always a real race; absence is limited to the executed accesses"],
        stages=[
            dict(name="differential", run="^TestC12_", quick=800, thorough=10000, shards_quick=4, shards_thorough=16),
            dict(name="test_order", engine="bb", run="^TestC12BB_", quick=40, thorough=600, shards_quick=4, shards_thorough=16, trimpath=True),
            dict(name="race", engine="race", run="^TestC12Race_", quick=100, thorough=1500, shards_quick=2, shards_thorough=8, expect_race_free=True),
        ],
    ),
    "C13": dict(
        rule="cases are ordered pairs of texts (+ colour flag): exhaustive over line sequences of a 3-letter alphabet, "
             "random pairs from the hostile line alphabet related by 1-3 edits (1 in 40 made right after a 64-1100 KiB comparison: the report must equal the one in isolation; CRLF-vs-LF presentations of the same lines), large texts (>10 / >=200 lines with popular lines), "
             "and enumerated huge texts whose number of distinct lines sits on 0x7FFF/0x8001, 0xD7FF-0xE001, 0xFFFD-0x10001. "
             "Round 7: edits that change only terminal control sequences or invisible characters, a label glued in front of the first line of a text of up to 40 lines, a text cut at a dashed line. Round 9: 21 / 30 / 64 separate hunks (every tenth line of a long text changed). non-trivial = texts differ and (>=2 hunks, or repeated lines, or >10 lines, or whitespace-only / invalid-UTF-8 difference, or inline path taken); "
             "distinct = distinct canonical JSON of the case",
        assumptions=["oracles R1-R4 of DESIGN §6/C13 are implemented independently of the diff code; the report grammar parsed is the NO_COLOR one"],
        stages=[
            dict(name="exhaustive", run="^TestC13_Exhaustive$", quick=1, thorough=1, shards_quick=4, shards_thorough=16),
            dict(name="huge_line_counts", run="^TestC13_HugeLineCounts$", quick=1, thorough=1, shards_quick=4, shards_thorough=16),
            dict(name="random", run="^TestC13_(Random|Large)$", quick=2500, thorough=30000, shards_quick=4, shards_thorough=16),
            dict(name="fuzz", engine="fuzz", target="FuzzC13Diff", run="FuzzC13Diff", fuzztime=60, thorough_only=True),
        ],
    ),
}
