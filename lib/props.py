"""Per-property stage tables for /verif/check (see DESIGN.md §6).

A stage: name, engine (wb|race|sched|bb|fuzz), run (regexp of Go test names), quick/thorough = base number of
rapid cases per shard (each test scales it with its own weight), shards_quick/shards_thorough.
"""

ASSUME_WB = [
    "white-box harness: package snaps compiled from /repo with overlay test files; fake testingT runs Cleanup at the end of the simulated test",
    "a simulated process = fresh registries/events/skip list + mode variables (isCI, UPDATE_SNAPS) set directly",
    "formatted text is computed by calling kr/pretty (a dependency, not code under test)",
]

PROPS = {
    "C13": dict(
        rule="cases are ordered pairs of texts (+ colour flag): exhaustive over line sequences of a 3-letter alphabet, "
             "random pairs from the hostile line alphabet related by 1-3 edits, and large texts (>10 / >=200 lines with popular lines). "
             "non-trivial = texts differ and (>=2 hunks, or repeated lines, or >10 lines, or whitespace-only / invalid-UTF-8 difference, or inline path taken); "
             "distinct = distinct canonical JSON of the case",
        assumptions=["oracles R1-R4 of DESIGN §6/C13 are implemented independently of the diff code; the report grammar parsed is the NO_COLOR one"],
        stages=[
            dict(name="exhaustive", run="^TestC13_Exhaustive$", quick=1, thorough=1, shards_quick=4, shards_thorough=16),
            dict(name="random", run="^TestC13_(Random|Large)$", quick=2500, thorough=30000, shards_quick=4, shards_thorough=16),
        ],
    ),
}
