"""Texts for MANIFEST.json (see tools/gen_manifest.py)."""

WB_NOTE = ("Trusted base: the Go toolchain, pgregory.net/rapid v1.3.0, the harness' own reference model and oracles (written "
           "independently of the code they judge), kr/pretty and encoding/json as reference formatters. The harness is compiled into "
           "package snaps with `go test -overlay` (build tag verif); no source file of /repo is modified. Exploration never shows absence.")

TEXT = {
    "C13": dict(
        engine="wb",
        technique="property-based testing (rapid) + exhaustive small-alphabet enumeration against four independent oracles (emptiness iff equal, report grammar, subsequence-removal DP, edit-script replay)",
        level_text="Generated-input search: every ordered pair of line sequences over a 3-letter alphabet up to length 4 (quick) / 5 (thorough) in both colour modes, plus tens of thousands of random and large text pairs, each judged by oracles R1-R4. Exhaustive on the small space, sampled beyond it.",
        design_ref="§6 C13",
        level_note=WB_NOTE,
    ),
}

NOT_APPLICABLE = {}

ENGINES = [
    dict(name="wb", path="/verif/wb", serves_properties=[], kind_free_text="white-box rapid properties compiled into package snaps via go test -overlay"),
]

NOTES = ("All checks are driven by /verif/check (python3). Every check rebuilds its harness from /repo's working tree in a private scratch "
         "directory, is a pure function of (tree, VERIF_SEED, tier), and exits 2 (never 1) when it is inconclusive. See DESIGN.md.")
