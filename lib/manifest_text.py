"""Texts for MANIFEST.json (see tools/gen_manifest.py)."""

WB_NOTE = ("Trusted base: the Go toolchain, pgregory.net/rapid v1.3.0, the harness' own reference model and oracles (written "
           "independently of the code they judge), kr/pretty and encoding/json as reference formatters. The harness is compiled into "
           "package snaps with `go test -overlay` (build tag verif); no source file of /repo is modified. Exploration never shows absence.")

TEXT = {
    "C13": dict(
        engine="wb",
        technique="property-based testing (rapid) + exhaustive small-alphabet enumeration against four independent oracles (emptiness iff equal, report grammar, subsequence-removal DP, edit-script replay)",
        level_text="Generated-input search: every ordered pair of line sequences over a 3-letter alphabet up to length 4 (quick) / 5 (thorough) in both colour modes, plus tens of thousands of random and large text pairs, each judged by oracles R1-R4. Exhaustive on the small space, sampled beyond it.",
        design_ref="§6 C13",
        level_note=WB_NOTE,
    ),
}

def _wb(pid, technique, level_text):
    TEXT[pid] = dict(engine="wb", technique=technique, level_text=level_text, design_ref="§6 " + pid, level_note=WB_NOTE)


_wb("C01", "property-based testing (rapid): record/replay round-trip of generated call programs over hostile texts, JSON and YAML documents; oracle = every replayed call passes silently and the directory is byte-identical",
    "Generated-input search over call programs and values (terminator/escape lines, blank lines, edge newlines, header-like lines, invalid UTF-8, > 64 KiB lines, mixed entry kinds, pre-existing files); each case records in one simulated process and replays read-only in another. Sampled, not exhaustive.")
_wb("C02", "property-based testing (rapid): metamorphic pairs (stored, received) with different formatted text, every non-updating mode, colours on/off; oracle = exactly one failure and an unchanged directory; known finding K1 excluded by construction and probed separately",
    "Generated-input search over value pairs produced by byte/line/whitespace/UTF-8 edits and JSON value mutations through all five APIs. Sampled; the K1 class is reported as KNOWN-FINDING while it reproduces.")
_wb("C03", "stateful model-based testing (rapid): generated histories of processes/executions/interleaved calls checked after every call against a slot model and an independent file parser",
    "Generated histories (prefix-related names, > 9 calls, re-executions, interleaved live tests, failing calls consuming ordinals, per-call Update options, two files); after every call: predicted outcome == observed, other slots and order unchanged. Sampled.")
_wb("C04", "property-based testing (rapid): record / update / read-only three-process scenario with generated old/new value pairs; oracles: per-call outcome, mtime-based no-write, only the addressed file written, reference-parser equality of all other entries, exact standalone bytes",
    "Generated-input search over initial files and subsets of changed entries (shorter, longer, empty, terminator-like, header-like; first/middle/last; all five APIs). Sampled.")
_wb("C07", "property-based testing (rapid): generated test programs + directory contents, exported Clean driven in-process with generated -count/-run/mode/sort; oracle = every slot addressed in the process survives byte-identically, is never listed, and replays",
    "Generated-program search (1-5 tests, 0-12 calls, all five APIs, 1-3 configs, -count 1-3, run filters selecting all tests, stale neighbours, slots added in the run). Sampled.")
_wb("C09", "property-based testing (rapid): generated directory contents and programs against a model of the stale set; oracle = summary lists a superset of the model's stale items and no addressed item, removal iff reported and allowed by mode, everything else byte/mtime identical",
    "Generated-input search over stale entries (any position, ids live in another file), stale files, unrelated files, sub-directories, unaddressed directories, skip-protected tests, -count 1-3, all mode x sort combinations. Sampled.")
_wb("C10", "property-based testing (rapid): generated well-formed files through Clean; oracles: exact multiset of surviving (id, body), independent natural-order comparator, no-write (mtime), idempotence, metamorphic permutation invariance",
    "Generated-input search over files of 0-25 entries with natural-order traps, stale subsets, special body lines, two files per case, all modes x sort. Sampled; order only judged where the natural order is total.")

NOT_APPLICABLE = {}

ENGINES = [
    dict(name="wb", path="/verif/wb", serves_properties=["C01","C02","C03","C04","C07","C09","C10","C12","C13","C14","C15","C16","C17","C18","C19","C20"], kind_free_text="white-box rapid properties compiled into package snaps via go test -overlay"),
]

NOTES = ("All checks are driven by /verif/check (python3). Every check rebuilds its harness from /repo's working tree in a private scratch "
         "directory, is a pure function of (tree, VERIF_SEED, tier), and exits 2 (never 1) when it is inconclusive. See DESIGN.md.")
