"""Texts for MANIFEST.json (see tools/gen_manifest.py)."""

WB_NOTE = ("Trusted base: the Go toolchain, pgregory.net/rapid v1.3.0, the harness' own reference model and oracles (written "
           "independently of the code they judge), kr/pretty and encoding/json as reference formatters. The harness is compiled into "
           "package snaps with `go test -overlay` (build tag verif); no source file of /repo is modified. Exploration never shows absence.")

TEXT = {
    "C13": dict(
        engine="wb",
        technique="property-based testing (rapid) + exhaustive small-alphabet enumeration against four independent oracles (emptiness iff equal, report grammar, subsequence-removal DP, edit-script replay)",
        level_text="Generated-input search: every ordered pair of line sequences over a 3-letter alphabet up to length 4 (quick) / 5 (thorough) in both colour modes, plus tens of thousands of random and large text pairs, each judged by oracles R1-R4. Exhaustive on the small space, sampled beyond it.",
        design_ref="§6 C13",
        level_note=WB_NOTE,
    ),
}

def _wb(pid, technique, level_text):
    TEXT[pid] = dict(engine="wb", technique=technique, level_text=level_text, design_ref="§6 " + pid, level_note=WB_NOTE)


_wb("C01", "property-based testing (rapid): record/replay round-trip of generated call programs over hostile texts, JSON and YAML documents; oracle = every replayed call passes silently and the directory is byte-identical",
    "Generated-input search over call programs and values (terminator/escape lines, blank lines, edge newlines, header-like lines, invalid UTF-8, > 64 KiB lines, mixed entry kinds, pre-existing files); each case records in one simulated process and replays read-only in another. Sampled, not exhaustive.")
_wb("C02", "property-based testing (rapid): metamorphic pairs (stored, received) with different formatted text, every non-updating mode, colours on/off; oracle = exactly one failure and an unchanged directory; known finding K1 excluded by construction and probed separately",
    "Generated-input search over value pairs produced by byte/line/whitespace/UTF-8 edits and JSON value mutations through all five APIs. Sampled; the K1 class is reported as KNOWN-FINDING while it reproduces.")
_wb("C03", "stateful model-based testing (rapid): generated histories of processes/executions/interleaved calls checked after every call against a slot model and an independent file parser",
    "Generated histories (prefix-related names, > 9 calls, re-executions, interleaved live tests, failing calls consuming ordinals, per-call Update options, two files); after every call: predicted outcome == observed, other slots and order unchanged. Sampled.")
_wb("C04", "property-based testing (rapid): record / update / read-only three-process scenario with generated old/new value pairs; oracles: per-call outcome, mtime-based no-write, only the addressed file written, reference-parser equality of all other entries, exact standalone bytes",
    "Generated-input search over initial files and subsets of changed entries (shorter, longer, empty, terminator-like, header-like; first/middle/last; all five APIs). Sampled.")
_wb("C07", "property-based testing (rapid): generated test programs + directory contents, exported Clean driven in-process with generated -count/-run/mode/sort; oracle = every slot addressed in the process survives byte-identically, is never listed, and replays",
    "Generated-program search (1-5 tests, 0-12 calls, all five APIs, 1-3 configs, -count 1-3, run filters selecting all tests, stale neighbours, slots added in the run). Sampled.")
_wb("C09", "property-based testing (rapid): generated directory contents and programs against a model of the stale set; oracle = summary lists a superset of the model's stale items and no addressed item, removal iff reported and allowed by mode, everything else byte/mtime identical",
    "Generated-input search over stale entries (any position, ids live in another file), stale files, unrelated files, sub-directories, unaddressed directories, skip-protected tests, -count 1-3, all mode x sort combinations. Sampled.")
_wb("C10", "property-based testing (rapid): generated well-formed files through Clean; oracles: exact multiset of surviving (id, body), independent natural-order comparator, no-write (mtime), idempotence, metamorphic permutation invariance",
    "Generated-input search over files of 0-25 entries with natural-order traps, stale subsets, special body lines, two files per case, all modes x sort. Sampled; order only judged where the natural order is total.")

_wb("C12", "property-based differential testing (rapid): call sequences through shared Configs (built from shared option values, with overrides, and built late) versus a fresh Config per call; plus race-detector stress of one shared Config from 2-4 goroutines",
    "Generated-input search over option sets and sequences of the five APIs; outcomes and resulting directory trees must equal those of fresh Configs; a -race build reports data races of concurrent use. Sampled; race detection is limited to executed accesses.")
TEXT["C12"]["engine"] = "wb+bb+race"
TEXT["C12"]["technique"] += "; history relation with the snapshot directory removed between calls; black-box metamorphic relation with the real runner (snapshots of test X with all tests == with -run ^X$ alone)"
_wb("C14", "property-based testing (rapid): metamorphic relations over generated JSON trees (form, whitespace, member order), round-trip through an independent parser, and rejection of inputs that encoding/json rejects",
    "Generated-input search over JSON documents x presentations x input forms x pretty-print options x both JSON entry points, each with an invalid sibling input. Sampled.")
_wb("C15", "property-based testing (rapid): reference model set(tree, path, placeholder) applied left to right versus the stored document, for gjson-escaped paths and YAML paths; caller's bytes compared before/after",
    "Generated-input search over documents, existing paths (escaped keys, array elements, nested, repeated, parent/child), multi-path Any matchers with missing paths, placeholders of every JSON type, matcher sequences, three input forms. Sampled; reported matcher errors are accepted as legal outcomes.")
_wb("C16", "property-based metamorphic testing (rapid): D / D' (masked values changed) / D'' (uncovered value changed) through record and read-only replay in separate directories",
    "Generated-input search over documents, non-nested masked path sets and satisfiable matchers for JSON, standalone JSON and YAML. Sampled.")
_wb("C17", "property-based testing (rapid): generated mixes of failing and satisfiable matchers x modes; oracle: one failure naming every failing matcher, mtime-level no-write, ordinal consumption observed through later calls",
    "Generated-input search over matcher lists (missing path, wrong type, callback error, tolerated missing path) in four modes for JSON, standalone JSON and YAML. Sampled.")
_wb("C18", "property-based testing (rapid): grammar-generated YAML documents recorded and compared byte-for-byte with the escaped input; Go values recorded twice; invalid inputs rejected",
    "Generated-input search over YAML streams (separators, empty documents, block scalars with terminator lines, comments, header-looking flow sequences, anchors, trailing newlines), Go maps/structs, invalid constructions. Sampled; validity split delegated to the YAML library.")
_wb("C19", "property-based testing (rapid): four-process scenario (record / read-only replay / changed without update / update) over arbitrary byte values and -count, exact file set and bytes compared",
    "Generated-input search over standalone values (CR, CRLF, terminator lines, NUL, invalid UTF-8, structured values, JSON trees), names/options containing '%', 1-12 calls, 1-3 executions, all modes. Sampled.")
_wb("C20", "stateful model-based testing (rapid): C03-style histories with every outcome class, snaps.Skip* and Clean per process; plus 2-8 real goroutines; oracle: one outcome signal per call == model class, summary totals == tallies, obsolete lists == model stale set == removed items",
    "Generated histories (sequential interleavings and real goroutines) followed by Clean in every mode; includes a file-system fault (directory that cannot be created). Sampled.")

BB_NOTE = ("Trusted base: the Go toolchain and its `testing` runner (which decides what runs), pgregory.net/rapid v1.3.0, the harness' own table/formula/"
           "predicates. A data-driven test program using only the public API is compiled against /repo (`replace`), and every case is one or more real "
           "processes with an explicit minimal environment. No source file of /repo is modified. Exploration never shows absence.")


def _bb(pid, technique, level_text):
    TEXT[pid] = dict(engine="bb", technique=technique, level_text=level_text, design_ref="§6 " + pid + ", §5.1", level_note=BB_NOTE)


_bb("C05", "exhaustive enumeration of the 1440-cell mode table x generated content, each cell executed as real processes (real CI/UPDATE_SNAPS environment, real TestMain + Clean); oracle = the statement's table as a pure function over (call outcome, directory delta)",
    "Every combination of CI x Update option x UPDATE_SNAPS class x sort x entry point x entry state x obsolete items is executed (quick: once; thorough: three content seeds). Exhaustive over the table, sampled over values.")
_bb("C08", "property-based testing (rapid) over generated test programs, skip sets and -run patterns, executed by the real test runner which reports which tests started; oracle = items of tests that did not run survive and are unlisted; known findings K2-K5 exempted by predicate and probed by minimal programs",
    "Generated-program search (prefix/substring-related names, nested subtests, shared/custom/standalone files, skips before/after calls, 25 -run shapes, report/clean x sort, stale prefix-siblings). Sampled; four root causes are recorded as known findings and still reported as KNOWN-FINDING lines.")
_bb("C11", "property-based testing (rapid) over option sets, call shapes, packages and subtest names, each case executed nine times (normal / -trimpath build x package dir / foreign cwd x GOFLAGS variants incl. values that merely mention -trimpath, -test.count=2); oracle = exact set of created files and entry ids equals the statement's path formula",
    "Generated-input search over Dir/Filename/Ext/API x call shape (0-100 extra frames, non-test files, other package) x package depth x subtest names with '%', '/', spaces. Sampled; -trimpath only for cwd = package dir.")

TEXT["C06"] = dict(
    engine="sched+race",
    technique="schedule exploration on a cooperative scheduler (package snaps rebuilt at check time with a yield before every statement and cooperative mutexes): rapid-generated scenarios x schedules plus exhaustive enumeration of all schedules with <= 2 preemptions of fixed two-task scenarios, serialisability oracle; race-detector stress for the data-race clause",
    level_text="Generated concurrent scenarios (create/match/mismatch/update mixes over one shared file) under generated schedules with up to 3 preemptions, and every schedule with at most two preemptions (including which task starts) for 1 (quick) / 4 (thorough) fixed scenarios; each final file and every call outcome is compared with the serial prediction. A -race build runs generated goroutine mixes of Match*, Skip* and one shared Config. Bounded exploration, not a proof.",
    design_ref="§5.2, §5.3, §6 C06",
    level_note="Trusted base: the Go toolchain incl. the race detector, rapid, the source rewriter (text-offset insertion of yields, line numbers preserved) and the 150-line scheduler/lock shim. File operations between two yields are atomic; kernel-level partial writes are out of reach. /repo is not modified: rewritten sources are supplied through -overlay.")

TEXT["C14"]["technique"] += "; history relation over one caller buffer rewritten in place; enumerated nesting depths up to 10002 (thorough 65536) with an oracle independent of encoding/json"
TEXT["C15"]["technique"] += "; history relation: matcher values reused after warm-up documents store the same as fresh ones"
TEXT["C03"]["engine"] = "wb+sched+bb"
TEXT["C03"]["technique"] += "; black-box metamorphic relation with the real runner (slots of test X with all tests of the program, one of which may change the working directory, == with -run ^X$ alone)"
TEXT["C03"]["technique"] += "; the concurrency clause is explored with generated scenarios x schedules on the cooperative scheduler (serial-prediction oracle)"
TEXT["C19"]["engine"] = "wb+sched+bb"
TEXT["C19"]["technique"] += "; the file-k clause under concurrency is explored with standalone calls on the cooperative scheduler (incl. every schedule with <= 2 preemptions for two tests whose names differ in case only)"
TEXT["C19"]["technique"] += "; plus a black-box stage: a real test program (also checked out under a path with '%' and a blank, normal and -trimpath builds) whose k-th standalone call must create file k with exactly the value, then replays on CI"
TEXT["C07"]["engine"] = "wb+bb"
TEXT["C07"]["technique"] += "; cross-checked by a black-box stage with the real test runner (real -test.count / -test.run, Clean called from TestMain)"
TEXT["C20"]["engine"] = "wb+bb"
TEXT["C20"]["technique"] += "; plus an all-entry-points scenario and a black-box stage comparing the summary printed by a real process with what its tests were signalled"
TEXT["C01"]["engine"] = "wb+bb"
TEXT["C01"]["technique"] += "; a black-box stage records with one build of a real test program (normal / -trimpath) and replays read-only with the other; plus a native coverage-guided fuzz target in the thorough tier"
TEXT["C02"]["technique"] += "; enumerated texts whose distinct-line count sits on 16-bit / surrogate / U+FFFD boundaries; plus a native coverage-guided fuzz target in the thorough tier"
TEXT["C13"]["technique"] += "; enumerated texts whose distinct-line count sits on 16-bit / surrogate / U+FFFD boundaries; history relation (report after a > 1 MiB comparison == report in isolation); plus a native coverage-guided fuzz target in the thorough tier"

NOT_APPLICABLE = {}

ENGINES = [
    dict(name="sched", path="/verif/sched", serves_properties=["C03", "C06", "C19"], kind_free_text="controlled scheduler: go/parser based rewriter inserting yields, cooperative sync shim, schedule-driven runner"),
    dict(name="bb", path="/verif/bb", serves_properties=["C01", "C03", "C05", "C07", "C08", "C11", "C12", "C19", "C20"], kind_free_text="black-box rapid properties driving a compiled, data-driven test program (real testing runner, TestMain, environment) as sub-processes"),
    dict(name="race", path="/verif/wb", serves_properties=["C06", "C12"], kind_free_text="the white-box binary built with -race; generated goroutine mixes"),
    dict(name="wb", path="/verif/wb", serves_properties=["C01","C02","C03","C04","C07","C09","C10","C12","C13","C14","C15","C16","C17","C18","C19","C20"], kind_free_text="white-box rapid properties compiled into package snaps via go test -overlay"),
]

NOTES = ("All checks are driven by /verif/check (python3). Every check rebuilds its harness from /repo's working tree in a private scratch "
         "directory, is a pure function of (tree, VERIF_SEED, tier), and exits 2 (never 1) when it is inconclusive. See DESIGN.md.")
