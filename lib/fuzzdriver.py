"""Native go fuzzing stage (thorough tier). A campaign cannot be pinned to a seed; the reproducible unit is the replay
file that the target writes before failing. Time budget exhausted = nothing found (never a verdict by itself)."""
import json
import os
import re


def run_fuzz_stage(chk, scratch, prop_id, stage, tier, seed):
    target = stage["target"]
    binp = chk.build_wb(scratch, fuzz=target)
    rd = os.path.join(scratch, "fuzz-run-" + target)
    od = os.path.join(scratch, "out-%s-0" % stage["name"])
    cache = os.path.join(scratch, "fuzz-cache-" + target)
    sd = os.path.join(scratch, "fuzz-tmp-" + target)
    for d in (rd, od, cache, sd):
        os.makedirs(d, exist_ok=True)
    env = dict(chk.GOENV)
    env.update(VERIF_OUT=od, VERIF_SHARD="0", VERIF_NSHARDS="1", VERIF_TIER=tier, VERIF_SCRATCH=sd, TMPDIR=sd, VERIF_SEED=str(seed))
    secs = stage.get("fuzztime", 60)
    cmd = [binp, "-test.run", "^$", "-test.fuzz", "^" + target + "$", "-test.fuzzcachedir", cache,
           "-test.fuzztime", "%ds" % secs, "-test.parallel", str(chk.NCPU), "-test.timeout", "%ds" % (secs + 600)]
    rc, out = chk.run(cmd, cwd=rd, env=env, timeout=secs + 900)
    execs = 0
    for m in re.finditer(r"execs: (\d+)", out):
        execs = max(execs, int(m.group(1)))
    failed = any(f.startswith("fail.") for f in os.listdir(od))
    part = dict(property=prop_id, test=target, shard=0, requested=0, evaluations=execs, nontrivial_hashes=[],
                classes={"fuzz_execs": execs, "fuzz_seconds": secs}, samples=[], excluded={}, exhaustive=False, corpus_replayed=0, failed=failed)
    json.dump(part, open(os.path.join(od, "part.%s.0.json" % target), "w"))
    if rc != 0 and not failed:
        # a crash without an oracle failure (e.g. panic inside the fuzz engine) is inconclusive
        pass
    return [dict(shard=0, rc=rc if failed or rc != 0 else 0, out=out, outdir=od)]
