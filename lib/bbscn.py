"""Writes the black-box scenario module (a real Go test program that uses go-snaps' public API) into a scratch dir."""
import os
import shutil

VERIF = os.path.dirname(os.path.dirname(os.path.abspath(__file__)))

# package dir (relative), package name, test files -> test function names, extra non-test funcs per file
LAYOUT = [
    (".", "scn", {
        "alpha_test.go": ["TestAlpha", "TestAlphaBeta", "TestAl"],
        "beta_test.go": ["TestBeta", "TestB", "Test_x"],
        "gamma_test.go": ["TestGamma", "TestGamma2"],
        "dotted.v2_test.go": ["TestDotted"],
        "api.snapshot_test.go": ["TestSnapApi"],
    }),
    ("sub", "sub", {"sub_test.go": ["TestSub", "TestSubAlpha"]}),
    ("sub/deep/er", "er", {"er_test.go": ["TestEr", "TestAlpha"]}),
]

# a function that is not a test but whose name matches a -run pattern (see K5)
EXTRA_FUNCS = {"beta_test.go": "func utilGammaHelper() int { return 1 }\n",
               # text that LOOKS like test declarations but is not code: a commented-out old test, Go source kept as a raw string
               "gamma_test.go": "/*\nfunc TestAlphaCommentedOut(t *testing.T) { runGamma(t) }\n\nfunc TestBCommented(t *testing.T) {}\n*/\n\n"
                                "var generatedFixture = `\nfunc TestBetaInRawString(t *testing.T) {}\n\nfunc TestAlRaw(t *testing.T) {}\n`\n"}

TEST_FILE = '''package {pkg}

import (
	"testing"

	"scnmod/apitesting"
	"scnmod/scnlib"

	"github.com/gkampitakis/go-snaps/snaps"
)

{tests}
{extra}
// ---- interpreter, duplicated in every test file so that the first _test.go frame of a call is the test's own file

func run{suf}(t *testing.T) {{
	node := scnlib.Load().Tests[t.Name()]
	rt := scnlib.Wrap(t)
	if node == nil {{
		return
	}}
	interp{suf}(t, rt, node.Steps)
}}

func interp{suf}(t *testing.T, rt *scnlib.RecT, steps []scnlib.Step) {{
	for _, st := range steps {{
		st := st
		switch st.Op {{
		case "call":
			call{suf}(rt, st)
		case "skip":
			scnlib.DoSkipStep(rt, st)
		case "chdir":
			scnlib.DoChdir()
		case "sub":
			if st.Suite {{
				runSuite(t, st)
				continue
			}}
			t.Run(st.Name, func(t *testing.T) {{
				if st.Parallel {{
					t.Parallel()
				}}
				interp{suf}(t, scnlib.Wrap(t), st.Steps)
			}})
		}}
	}}
}}

func call{suf}(rt *scnlib.RecT, st scnlib.Step) {{
	switch st.Shape {{
	case "closure":
		func() {{
			func() {{ direct{suf}(rt, st) }}()
		}}()
	case "helper_same":
		helperSame{suf}(rt, st, st.Depth)
	case "helper_nontest":
		helperNonTest(rt, st, st.Depth)
	case "helper_pkg":
		scnlib.DoCallDepth(rt, st, st.Depth)
	case "helper_testingfile":
		apitesting.Assert(rt, st)
	default:
		direct{suf}(rt, st)
	}}
}}

func helperSame{suf}(rt *scnlib.RecT, st scnlib.Step, depth int) {{
	rt.Helper()
	if depth > 0 {{
		helperSame{suf}(rt, st, depth-1)
		return
	}}
	direct{suf}(rt, st)
}}

// direct{suf} makes the Match* call from this test file.
func direct{suf}(rt *scnlib.RecT, st scnlib.Step) {{
	if st.Cfg.Default {{
		switch st.API {{
		case "snap":
			snaps.MatchSnapshot(rt, st.Value)
		case "json":
			snaps.MatchJSON(rt, st.Value)
		case "yaml":
			snaps.MatchYAML(rt, st.Value)
		case "ssnap":
			snaps.MatchStandaloneSnapshot(rt, st.Value)
		case "sjson":
			snaps.MatchStandaloneJSON(rt, st.Value)
		}}
	}} else {{
		c := scnlib.BuildConfig(st.Cfg)
		switch st.API {{
		case "snap":
			c.MatchSnapshot(rt, st.Value)
		case "json":
			c.MatchJSON(rt, st.Value)
		case "yaml":
			c.MatchYAML(rt, st.Value)
		case "ssnap":
			c.MatchStandaloneSnapshot(rt, st.Value)
		case "sjson":
			c.MatchStandaloneJSON(rt, st.Value)
		}}
	}}
	rt.Report(st)
}}
'''

HELPERS = '''package {pkg}

import "scnmod/scnlib"

// helperNonTest lives in a non-test file of the test's package.
func helperNonTest(rt *scnlib.RecT, st scnlib.Step, depth int) {{
	if depth > 0 {{
		helperNonTest(rt, st, depth-1)
		return
	}}
	scnlib.DoCall(rt, st)
}}
'''

SUITE = '''package {pkg}

import (
	"testing"

	"scnmod/scnlib"

	"github.com/gkampitakis/go-snaps/snaps"
)

// runSuite is a shared "conformance suite": the subtest function is declared in this NON-test file, so the goroutine of the
// subtest has no *_test.go frame at all (testing.tRunner -> this closure -> helpers -> Match*).
func runSuite(t *testing.T, st scnlib.Step) {{
	t.Run(st.Name, func(t *testing.T) {{
		rt := scnlib.Wrap(t)
		for _, c := range st.Steps {{
			if c.Op != "call" {{
				continue
			}}
			switch c.Shape {{
			case "helper_nontest":
				helperNonTest(rt, c, c.Depth)
			case "helper_pkg":
				scnlib.DoCallDepth(rt, c, c.Depth)
			default:
				suiteDirect(rt, c)
			}}
		}}
	}})
}}

// suiteDirect makes the Match* call from this non-test file.
func suiteDirect(rt *scnlib.RecT, st scnlib.Step) {{
	if st.Cfg.Default {{
		switch st.API {{
		case "snap":
			snaps.MatchSnapshot(rt, st.Value)
		case "json":
			snaps.MatchJSON(rt, st.Value)
		case "yaml":
			snaps.MatchYAML(rt, st.Value)
		case "ssnap":
			snaps.MatchStandaloneSnapshot(rt, st.Value)
		case "sjson":
			snaps.MatchStandaloneJSON(rt, st.Value)
		}}
	}} else {{
		c := scnlib.BuildConfig(st.Cfg)
		switch st.API {{
		case "snap":
			c.MatchSnapshot(rt, st.Value)
		case "json":
			c.MatchJSON(rt, st.Value)
		case "yaml":
			c.MatchYAML(rt, st.Value)
		case "ssnap":
			c.MatchStandaloneSnapshot(rt, st.Value)
		case "sjson":
			c.MatchStandaloneJSON(rt, st.Value)
		}}
	}}
	rt.Report(st)
}}
'''

MAIN = '''package {pkg}

import (
	"os"
	"testing"

	"scnmod/scnlib"
)

func TestMain(m *testing.M) {{
	m.Run()
	scnlib.Finish(m)
	os.Exit(0)
}}
'''


def write_scn(dst, repo):
    """Creates the module scnmod in dst (replace go-snaps => repo). Returns the list of package dirs."""
    os.makedirs(dst, exist_ok=True)
    mod = open(os.path.join(repo, "go.mod")).read()
    req = mod[mod.index("require"):]
    with open(os.path.join(dst, "go.mod"), "w") as f:
        f.write("module scnmod\n\ngo 1.22\n\nrequire github.com/gkampitakis/go-snaps v0.0.0\n\nreplace github.com/gkampitakis/go-snaps => %s\n\n%s" % (repo, req))
    shutil.copy(os.path.join(repo, "go.sum"), os.path.join(dst, "go.sum"))
    os.makedirs(os.path.join(dst, "scnlib"), exist_ok=True)
    shutil.copy(os.path.join(VERIF, "bb", "scn", "scnlib", "scnlib.go"), os.path.join(dst, "scnlib", "scnlib.go"))
    # a project's own assertion helpers: a NON-test file called testing.go in a directory whose name ends in "testing"
    os.makedirs(os.path.join(dst, "apitesting"), exist_ok=True)
    with open(os.path.join(dst, "apitesting", "testing.go"), "w") as f:
        f.write('// Package apitesting holds assertion helpers of the project under test.\npackage apitesting\n\nimport "scnmod/scnlib"\n\n'
                '// Assert makes the Match* call on behalf of the test (through the shared helper package).\n'
                'func Assert(rt *scnlib.RecT, st scnlib.Step) { assert(rt, st) }\n\nfunc assert(rt *scnlib.RecT, st scnlib.Step) { scnlib.DoCall(rt, st) }\n')
    pkgs = []
    for rel, pkg, files in LAYOUT:
        d = os.path.join(dst, rel)
        os.makedirs(d, exist_ok=True)
        pkgs.append(rel)
        for fname, tests in files.items():
            suf = "".join(p.capitalize() for p in fname.replace("_test.go", "").replace(".", "_").split("_"))
            tsrc = "".join("func %s(t *testing.T) { run%s(t) }\n\n" % (t, suf) for t in tests)
            with open(os.path.join(d, fname), "w") as f:
                f.write(TEST_FILE.format(pkg=pkg, suf=suf, tests=tsrc, extra=EXTRA_FUNCS.get(fname, "")))
        with open(os.path.join(d, "helpers.go"), "w") as f:
            f.write(HELPERS.format(pkg=pkg))
        with open(os.path.join(d, "suite.go"), "w") as f:
            f.write(SUITE.format(pkg=pkg))
        with open(os.path.join(d, "main_test.go"), "w") as f:
            f.write(MAIN.format(pkg=pkg))
    return pkgs
