"""Black-box engine: builds the scenario program per shard and runs the rapid harness (package bbh) against it."""
import json
import os
import shutil
from concurrent.futures import ThreadPoolExecutor

import bbscn


def build_harness(chk, scratch):
    d = os.path.join(scratch, "bbh")
    if os.path.exists(os.path.join(d, "bbh.test")):
        return os.path.join(d, "bbh.test")
    os.makedirs(d, exist_ok=True)
    with open(os.path.join(d, "go.mod"), "w") as f:
        f.write("module bbh\n\ngo 1.22\n\nrequire pgregory.net/rapid v1.3.0\n")
    open(os.path.join(d, "go.sum"), "w").close()
    gen = open(os.path.join(chk.VERIF, "wb", "zz_verif_generic_test.go")).read().replace("\npackage snaps\n", "\npackage bbh\n", 1)
    open(os.path.join(d, "generic_test.go"), "w").write(gen)
    hd = os.path.join(chk.VERIF, "bb", "harness")
    for f in sorted(os.listdir(hd)):
        if f.endswith(".go"):
            shutil.copy(os.path.join(hd, f), os.path.join(d, f))
    rc, out = chk.run(["go", "test", "-c", "-tags", "verif", "-vet=off", "-o", "bbh.test", "."], cwd=d, timeout=600)
    if rc != 0:
        raise chk.Infra("black-box harness build failed:\n" + out)
    return os.path.join(d, "bbh.test")


def build_scn(chk, scratch, shard, trim):
    # the checkout directory of the scenario module: odd shards live in a directory whose name holds '%' and a blank
    # (Jenkins multibranch workspaces `feature%2Flogin`, folders like `My%20Project`, `Program Files`)
    d = os.path.join(scratch, "scn%d" % shard, "mod" if shard % 2 == 0 else "m%2Fd %d w")
    pkgs = bbscn.write_scn(d, chk.REPO)
    os.makedirs(os.path.join(d, "bin"), exist_ok=True)
    names = {".": "root", "sub": "sub", "sub/deep/er": "er"}
    for p in pkgs:
        variants = [("", [])] + ([("-trim", ["-trimpath"])] if trim else [])
        for sfx, flags in variants:
            out = os.path.join(d, "bin", names[p] + sfx + ".test")
            rc, o = chk.run(["go", "test", "-c", "-vet=off"] + flags + ["-o", out, "./" + p], cwd=d, timeout=600)
            if rc != 0 or not os.path.exists(out):
                raise chk.Infra("scenario program build failed (%s %s):\n%s" % (p, flags, o))
    return d


def run_bb_stage(chk, scratch, prop_id, stage, tier, seed, replay=None):
    binp = build_harness(chk, scratch)
    nshards = 1 if replay else stage.get("shards_" + tier, 4 if tier == "quick" else chk.NCPU)
    checks = stage.get(tier, 50)
    with ThreadPoolExecutor(max_workers=min(nshards, chk.NCPU)) as ex:
        dirs = list(ex.map(lambda k: build_scn(chk, scratch, k, stage.get("trimpath", False)), range(nshards)))
    chk.log("[build] black-box harness + %d scenario program copies" % nshards)

    def one(k):
        env = {"VERIF_BB_SCN": dirs[k], "VERIF_REPO": chk.REPO}
        env.update(stage.get("env") or {})
        return chk.run_shard(binp, scratch, prop_id, stage, tier, seed, k, nshards, checks, env, replay=replay)

    with ThreadPoolExecutor(max_workers=min(nshards, chk.NCPU)) as ex:
        return list(ex.map(one, range(nshards)))


def replay_bb(chk, scratch, prop_id, rf, path, stage=None):
    from props import PROPS
    if stage is not None:
        stage = dict(stage)
    for s in PROPS[prop_id]["stages"]:
        if stage is None and s.get("engine") == "bb":
            stage = dict(s)
            break
    test = rf.get("test", "")
    if test:
        stage["run"] = "^" + test.split("/")[0] + "$"
    results = run_bb_stage(chk, scratch, prop_id, stage, "quick", 1, replay=path)
    _, fails = chk.collect(results)
    if fails:
        chk.log("VIOLATION property=%s replay=%s" % (prop_id, path))
        chk.log("  " + json.load(open(fails[0])).get("error", "")[:3000])
        return 1
    if any(r["rc"] != 0 for r in results):
        chk.log(results[0]["out"][-3000:])
        return 2
    chk.log("replay passes: property=%s file=%s" % (prop_id, path))
    return 0
