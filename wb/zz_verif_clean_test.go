//go:build verif

// Clean scenarios: C07 (Clean never discards a matched snapshot) and
// C09 (Clean reports every stale item, deletes only in clean mode, touches nothing else).
package snaps

import (
	"flag"
	"fmt"
	"os"
	"path/filepath"
	"regexp"
	"runtime"
	"sort"
	"strconv"
	"strings"
	"syscall"
	"testing"

	"pgregory.net/rapid"
)

type scnCall struct {
	Call Call `json:"call"`
	New  bool `json:"new,omitempty"` // not recorded beforehand: the run itself adds it
	// Mut: in the run the call differs from what was recorded: "changed" value (C20 only), a failing "matcher" or "invalid" input
	Mut string `json:"mut,omitempty"`
	// Ghost: a call through a Config with Update(false) on a snapshot that was never recorded: "snapshot not found" in every
	// process, nothing is created (its directory may never come into existence) - but the file and directory count as visited
	Ghost bool `json:"never_recorded_update_false,omitempty"`
}

// onCall, if set, is told the outcome of every call of the run (not of the preparation).
var scnOnCall func(out string)


// (scnTest.PlainSkip: after its calls the test ends through the testing package's own t.Skip - not snaps.Skip: no protection)
type scnTest struct {
	PlainSkip bool `json:"ends_with_plain_t_skip,omitempty"`
	Name     string    `json:"name"`
	Calls    []scnCall `json:"calls"`
	SkipAt   int       `json:"skip_at"` // -1: never; k: snaps.Skip* is called before call index k
	SkipKind string    `json:"skip_kind,omitempty"`
}

type staleEntry struct {
	Cfg  int `json:"cfg"`
	ID   BS  `json:"id"`
	Body BS  `json:"body"`
	Pos  int `json:"pos"` // insertion position (modulo length)
}

type extraItem struct {
	Path  string `json:"path"` // relative to the scratch root
	Data  BS     `json:"data,omitempty"`
	IsDir bool   `json:"is_dir,omitempty"`
}

type cleanScn struct {
	Cfgs    []CfgSpec    `json:"cfgs"`
	Tests   []scnTest    `json:"tests"`
	Stale   []staleEntry `json:"stale_entries"`
	// RunUpdate (per config, "" | "true" | "false"): the Update option the configs carry in the RUN (not while recording):
	// what Clean may do follows UPDATE_SNAPS and CI alone
	RunUpdate []string `json:"update_option_of_the_configs_in_the_run,omitempty"`
	// StandaloneOnly: every call of the program is a standalone call
	StandaloneOnly bool `json:"only_standalone_calls,omitempty"`
	// ForeignTmp: during Clean TMPDIR points to another file system than the snapshot directories
	ForeignTmp bool `json:"tmpdir_on_another_file_system_during_clean,omitempty"`
	Extra   []extraItem  `json:"extra_items"`
	Mode    Mode         `json:"mode"`
	Sort    bool         `json:"sort"`
	Count   int          `json:"count"`
	RunOnly string       `json:"run"`
	// MainDir: the name of the main snapshot directory ("snaps" in generated paths is replaced by it); may contain glob metacharacters
	MainDir string `json:"main_dir,omitempty"`
	// CRLF > 0: after the preparation the file of config CRLF-1 is converted to CRLF line ends (a checkout with autocrlf); C07 only
	CRLF int `json:"crlf_cfg_plus1,omitempty"`
	// Cpu: the value of -test.cpu of the process. Only lists with ONE non-empty element are generated ("1,", ",2", "4,,"):
	// package testing skips empty elements, every test still runs Count times
	Cpu string `json:"test_cpu,omitempty"`
	// ReadOnly: while Clean runs, the snapshot tree is read-only for the process (directories 0555, files 0444, the calling
	// thread's file-system uid is an unprivileged one): a read-only checkout / source mount. Clean can still READ everything.
	ReadOnly bool `json:"read_only_tree_during_clean,omitempty"`
	// FdHeadroom > 0: while Clean runs, the process may open only that many descriptors beyond those it holds already
	// (RLIMIT_NOFILE lowered: container / ulimit environments). The scenario then addresses more snapshot files than that
	// (test "TestZManyFiles", one call per file): Clean needs one descriptor at a time.
	FdHeadroom int `json:"fd_headroom_during_clean,omitempty"`
	// Dangling >= 0: the file of that config ends with an unterminated entry of an absent test (a truncated file); C07 only
	Dangling int `json:"dangling_cfg"`
}

func soloOf(c CfgSpec) CfgSpec { c.Filename = ""; return c }

func (c scnCall) spec(cfgs []CfgSpec) CfgSpec {
	s := cfgs[c.Call.Cfg]
	if c.Call.standalone() {
		return soloOf(s)
	}
	return s
}

type scnOpts struct {
	skips     bool // C09: skip-protected tests (multi-entry calls in shared files only)
	runFilter bool // C07: -run patterns that select every executed test
	rejects   bool // calls that the run rejects before the comparison (C07, C09)
}

func genCleanScn(t *rapid.T, col *collector, so scnOpts) cleanScn {
	s := cleanScn{Count: rapid.SampledFrom([]int{1, 1, 2, 3}).Draw(t, "count"), Mode: genCleanMode(t), Sort: rapid.Bool().Draw(t, "sort"), Dangling: -1}
	mainDir := rapid.SampledFrom([]string{"snaps", "snaps", "snaps", "sn[a]ps", "snaps-v?", "sn*ps", "sn\\aps"}).Draw(t, "maindir")
	s.MainDir = mainDir
	s.Cfgs = []CfgSpec{{Dir: "snaps", Filename: "f", DirStyle: rapid.SampledFrom([]string{"", "", "", "trailing", "dot", "dotdot", "double"}).Draw(t, "dirstyle")}}
	if rapid.Bool().Draw(t, "cfg2") {
		s.Cfgs = append(s.Cfgs, CfgSpec{Dir: "snaps", Filename: rapid.SampledFrom([]string{"g", "g", "v1.snapshots"}).Draw(t, "fn2"), Ext: rapid.SampledFrom([]string{".txt", ".json", ".snap", "", "_golden"}).Draw(t, "ext2")})
	}
	if rapid.IntRange(0, 2).Draw(t, "cfg3") == 0 {
		s.Cfgs = append(s.Cfgs, CfgSpec{Dir: rapid.SampledFrom([]string{"snaps", "other"}).Draw(t, "dir3"), Filename: "", Ext: rapid.SampledFrom([]string{"", ".html"}).Draw(t, "ext3")})
	}
	ntests := rapid.IntRange(1, 5).Draw(t, "ntests")
	names := genNamePool(t, ntests+1)
	o := textOpts{escapeToken: true, headerLike: true, names: names, maxLines: 3, long: true}
	for i := 0; i < ntests; i++ {
		st := scnTest{Name: names[i], SkipAt: -1}
		n := rapid.IntRange(0, 6).Draw(t, "ncalls")
		if rapid.IntRange(0, 6).Draw(t, "many") == 0 {
			n = rapid.IntRange(10, 12).Draw(t, "ncalls10")
		}
		skipping := so.skips && i > 0 && rapid.IntRange(0, 3).Draw(t, "skips") == 0
		if so.skips && i > 0 && !skipping {
			// a test whose name extends the name of a test that skips (user / user-admin / user#01) skips more often:
			// several skipped names that share a prefix
			for _, prev := range s.Tests {
				if prev.SkipAt >= 0 && strings.HasPrefix(names[i], prev.Name) && rapid.Bool().Draw(t, "skiprelated") {
					skipping = true
				}
			}
		}
		sawNew := false
		for k := 0; k < n; k++ {
			api := rapid.SampledFrom([]string{"snap", "snap", "snap", "json", "yaml", "ssnap", "sjson"}).Draw(t, "api")
			if skipping {
				api = rapid.SampledFrom([]string{"snap", "json", "yaml"}).Draw(t, "mapi")
			}
			call := genAnyCall(t, api, o, col)
			if (api == "snap" || api == "ssnap") && hasTrailingCR(call.snapText()) {
				call = Call{API: api, Vals: []Val{strVal("plain")}}
			}
			call.Cfg = rapid.IntRange(0, len(s.Cfgs)-1).Draw(t, "cfg")
			if skipping {
				call.Cfg = 0 // shared with test 0 (made to address cfg 0 below)
			}
			sc := scnCall{Call: call, New: !skipping && rapid.IntRange(0, 5).Draw(t, "new") == 0}
			for _, prev := range st.Calls {
				if prev.New {
					sawNew = true // (the recording stops at the first new slot: nothing behind it is stored beforehand)
				}
			}
			if so.rejects && !sc.New && !sawNew && (api == "json" || api == "sjson" || api == "yaml") && rapid.IntRange(0, 3).Draw(t, "reject") == 0 {
				// in the run this call is rejected before the comparison (input not valid / matcher on a missing path): it fails,
				// writes nothing, and still is the k-th call on its file
				sc.Mut = rapid.SampledFrom([]string{"matcher", "invalid"}).Draw(t, "rejectkind")
			}
			st.Calls = append(st.Calls, sc)
		}
		if skipping {
			st.SkipAt = rapid.IntRange(0, len(st.Calls)).Draw(t, "skipat")
			st.SkipKind = rapid.SampledFrom([]string{"Skip", "Skipf", "SkipNow", "SkipBare"}).Draw(t, "skipkind")
		}
		s.Tests = append(s.Tests, st)
	}
	if so.rejects && rapid.IntRange(0, 7).Draw(t, "standaloneonly") == 0 {
		// a package that only takes standalone snapshots: no multi-entry call in the whole process
		anySkip := false
		for _, st := range s.Tests {
			anySkip = anySkip || st.SkipAt >= 0
		}
		if !anySkip {
			for ti := range s.Tests {
				for ci := range s.Tests[ti].Calls {
					c := &s.Tests[ti].Calls[ci]
					if !c.Call.standalone() {
						cfg := c.Call.Cfg
						c.Call = genAnyCall(t, rapid.SampledFrom([]string{"ssnap", "sjson"}).Draw(t, "soloapi"), o, col)
						c.Call.Cfg = cfg
						if c.Mut != "" && c.Call.API != "sjson" {
							c.Mut = ""
						}
					}
				}
			}
			s.StandaloneOnly = true
		}
	}
	if so.rejects {
		for i := range s.Tests {
			if s.Tests[i].SkipAt < 0 && rapid.IntRange(0, 5).Draw(t, "plainskip") == 0 {
				s.Tests[i].PlainSkip = true
			}
		}
	}
	if so.skips && !s.StandaloneOnly {
		// test 0 always addresses cfg 0 so that skipped tests never are the sole owner of a file (that is C08/K2)
		s.Tests[0].Calls = append([]scnCall{{Call: Call{API: "snap", Cfg: 0, Vals: []Val{strVal("anchor")}}}}, s.Tests[0].Calls...)
	}
	// stale entries
	for i := rapid.IntRange(0, 5).Draw(t, "nstale"); i > 0; i-- {
		ci := rapid.IntRange(0, len(s.Cfgs)-1).Draw(t, "scfg")
		var id string
		switch rapid.IntRange(0, 4).Draw(t, "stalekind") {
		case 4: // a sub test (recorded earlier, gone or not run now) of one of the program's tests: protected iff that test skips
			id = entryID(names[rapid.IntRange(0, ntests-1).Draw(t, "stest")]+"/"+genSubName(t), rapid.IntRange(1, 3).Draw(t, "sord"))
		case 0: // absent test
			id = entryID(names[ntests], rapid.IntRange(1, 11).Draw(t, "sord"))
		case 1: // ordinal just beyond the calls the test makes on THIS file (the same id may be live in another file)
			ti := rapid.IntRange(0, ntests-1).Draw(t, "stest")
			n := 0
			for _, c := range s.Tests[ti].Calls {
				if !c.Call.standalone() && c.Call.Cfg == ci {
					n++
				}
			}
			id = entryID(names[ti], n+rapid.IntRange(1, 2).Draw(t, "sjust"))
		default: // ordinal beyond the calls of an existing test
			ti := rapid.IntRange(0, ntests-1).Draw(t, "stest")
			id = entryID(names[ti], len(s.Tests[ti].Calls)+rapid.IntRange(1, 12).Draw(t, "sbeyond"))
		}
		dup := false
		for _, e := range s.Stale {
			if e.Cfg == ci && string(e.ID) == id {
				dup = true
			}
		}
		if !dup {
			s.Stale = append(s.Stale, staleEntry{Cfg: ci, ID: BS(id), Body: BS(vhStripCR(refEscape(genText(t, o)))), Pos: rapid.IntRange(0, 30).Draw(t, "spos")})
		}
	}
	// extra directory content
	pool := []extraItem{
		{Path: "snaps/x.snap", Data: "\n[TestOld - 1]\nold\n---\n"},
		{Path: "snaps/x.snap.json", Data: "{}"},
		{Path: "snaps/y.snap.html", Data: "<p>"},
		{Path: "snaps/TestOld_1.snap", Data: "old standalone"},
		{Path: "snaps/" + strings.ReplaceAll(names[0], "/", "_") + "_77.snap", Data: "beyond"},
		{Path: "snaps/" + strings.ReplaceAll(names[0], "/", "_") + "_78.snap.json", Data: "{\n \"a\": 1\n}"},
		{Path: "x.go", Data: "package p\n\nvar OnlyVars = 1\n"},
		{Path: "TestOld_1.go", Data: "package p\n\ntype T struct{}\n"},
		{Path: "snaps/notes.txt", Data: "unrelated"},
		{Path: "snaps/snapshot", Data: "no dot snap in the name"},
		{Path: "snaps/README.md", Data: "readme"},
		{Path: "snaps/sub.snap", IsDir: true},
		{Path: "snaps/sub.snap/inner.snap", Data: "\n[TestOld - 1]\nold\n---\n"},
		{Path: "snaps/subdir", IsDir: true},
		{Path: "snaps/subdir/deep.snap", Data: "deep"},
		{Path: "other/z.snap", Data: "\n[TestOld - 1]\nz\n---\n"},
		{Path: "unaddressed", IsDir: true},
		{Path: "unaddressed/u.snap", Data: "\n[TestOld - 1]\nu\n---\n"},
		{Path: "unaddressed/TestOld_1.snap", Data: "u standalone"},
		{Path: "unaddressed/notes.txt", Data: "n"},
	}
	for _, it := range pool {
		if rapid.IntRange(0, 2).Draw(t, "extra") > 0 {
			s.Extra = append(s.Extra, it)
		}
	}
	if rapid.IntRange(0, 7).Draw(t, "readonly") == 0 {
		// nothing that Clean has to WRITE is part of a read-only scenario (no sorting; in deleting modes no stale entry in a
		// used file): reporting must work, and files that cannot be unlinked are still listed
		s.ReadOnly = true
		s.Sort = false
		if !s.Mode.CI && (s.Mode.Update == "true" || s.Mode.Update == "clean") {
			s.Stale = nil
		}
	}
	s.ForeignTmp = rapid.IntRange(0, 4).Draw(t, "foreigntmp") == 0
	if rapid.IntRange(0, 5).Draw(t, "cpu") == 0 {
		s.Cpu = rapid.SampledFrom([]string{"1", "1,", "4,", ",2", "1,,", " 2 ,"}).Draw(t, "cpulist")
	}
	if rapid.IntRange(0, 11).Draw(t, "manyfiles") == 0 {
		nfiles := rapid.IntRange(36, 60).Draw(t, "nfiles")
		s.FdHeadroom = 24
		many := scnTest{Name: "TestZManyFiles", SkipAt: -1}
		for i := 0; i < nfiles; i++ {
			s.Cfgs = append(s.Cfgs, CfgSpec{Dir: "snaps", Filename: fmt.Sprintf("many%02d", i)})
			ci := len(s.Cfgs) - 1
			many.Calls = append(many.Calls, scnCall{Call: Call{API: "snap", Cfg: ci, Vals: []Val{strVal(fmt.Sprintf("value %d", i))}}})
			if i == 0 || i == nfiles/2 || i == nfiles-1 {
				s.Stale = append(s.Stale, staleEntry{Cfg: ci, ID: BS(entryID(names[ntests], 1+i%3)), Body: "stale in one of many files", Pos: i})
			}
		}
		s.Tests = append(s.Tests, many)
	}
	if so.rejects && rapid.IntRange(0, 3).Draw(t, "ghost") == 0 {
		s.Cfgs = append(s.Cfgs, CfgSpec{Dir: "ghostdir", Filename: "h", Update: vhBoolp(false)})
		ghost := scnTest{Name: rapid.SampledFrom([]string{"TestZGhost", "Test0Ghost", "TestAGhost"}).Draw(t, "ghostname"), SkipAt: -1}
		for i := rapid.IntRange(1, 2).Draw(t, "nghost"); i > 0; i-- {
			ghost.Calls = append(ghost.Calls, scnCall{Call: Call{API: "snap", Cfg: len(s.Cfgs) - 1, Vals: []Val{strVal("never recorded")}}, Ghost: true})
		}
		pos := rapid.IntRange(0, len(s.Tests)).Draw(t, "ghostpos")
		s.Tests = append(s.Tests[:pos], append([]scnTest{ghost}, s.Tests[pos:]...)...)
	}
	if so.runFilter && rapid.IntRange(0, 5).Draw(t, "dangling") == 0 {
		s.Dangling = rapid.IntRange(0, len(s.Cfgs)-1).Draw(t, "danglingcfg")
		// nothing is appended behind the torn entry in this run: entries written after an unterminated one belong to its body
		// as far as any reader of the format can tell (malformed input, outside the domain of the properties)
		for ti := range s.Tests {
			for ci := range s.Tests[ti].Calls {
				s.Tests[ti].Calls[ci].New = false
			}
		}
	}
	if so.runFilter && s.Dangling < 0 && rapid.IntRange(0, 6).Draw(t, "crlf") == 0 {
		s.CRLF = 1 + rapid.IntRange(0, len(s.Cfgs)-1).Draw(t, "crlfcfg")
	}
	if s.MainDir != "" && s.MainDir != "snaps" {
		for i := range s.Cfgs {
			if s.Cfgs[i].Dir == "snaps" {
				s.Cfgs[i].Dir = s.MainDir
			}
		}
		for i := range s.Extra {
			if strings.HasPrefix(s.Extra[i].Path, "snaps/") {
				s.Extra[i].Path = s.MainDir + s.Extra[i].Path[len("snaps"):]
			}
		}
		// sibling directories that a glob of the main directory name would match as well: never addressed, never to be touched
		s.Extra = append(s.Extra, extraItem{Path: "snaps-v1", IsDir: true}, extraItem{Path: "snaps-v1/sibling.snap", Data: "\n[TestOld - 1]\ns\n---\n"},
			extraItem{Path: "snaps", IsDir: true}, extraItem{Path: "snaps/glob_sibling.snap", Data: "\n[TestOld - 1]\ns\n---\n"})
	}
	if s.ReadOnly && !s.Mode.CI && (s.Mode.Update == "true" || s.Mode.Update == "clean") {
		s.Stale = nil // (the many-files block may have added stale entries)
		s.Dangling = -1
	}
	if so.rejects && rapid.IntRange(0, 2).Draw(t, "runupdate") == 0 {
		s.RunUpdate = make([]string, len(s.Cfgs))
		for ci := range s.Cfgs {
			if s.Cfgs[ci].Update != nil {
				continue
			}
			hasNew := false
			for _, st := range s.Tests {
				unrecorded := false // (the recording of a test stops at its first new slot)
				for _, c := range st.Calls {
					unrecorded = unrecorded || c.New || c.Ghost
					if c.Call.Cfg == ci && unrecorded {
						hasNew = true
					}
				}
			}
			pool := []string{"", "true", "false"}
			if hasNew {
				pool = []string{"", "true"} // (a slot first added in the run needs permission to create)
			}
			s.RunUpdate[ci] = rapid.SampledFrom(pool).Draw(t, "runupdatevalue")
		}
	}
	if so.runFilter {
		tops := map[string]bool{}
		for _, st := range s.Tests {
			tops[strings.SplitN(st.Name, "/", 2)[0]] = true
		}
		var alts []string
		for k := range tops {
			alts = append(alts, "^"+regexp.QuoteMeta(k)+"$")
		}
		sort.Strings(alts)
		s.RunOnly = rapid.SampledFrom([]string{"", "", "Test", "^Test", strings.Join(alts, "|"), "."}).Draw(t, "run")
	}
	return s
}

// ---- scenario model -----------------------------------------------------------------------------------

type scnModel struct {
	multiLive map[string]map[string]bool // rel file -> id -> addressed
	soloLive  map[string]bool            // rel file -> addressed
	visited   map[string]bool            // rel dir -> visited by Clean
	skipped   []string                   // names that called snaps.Skip*
}

func (s cleanScn) model() scnModel {
	m := scnModel{multiLive: map[string]map[string]bool{}, soloLive: map[string]bool{}, visited: map[string]bool{}}
	for _, st := range s.Tests {
		sc := newSlotCounter()
		for k, c := range st.Calls {
			if st.SkipAt >= 0 && k >= st.SkipAt {
				break
			}
			file, id := sc.slot(c.spec(s.Cfgs), st.Name, c.Call)
			m.visited[filepath.Dir(file)] = true
			if id == "" {
				m.soloLive[file] = true
				continue
			}
			if m.multiLive[file] == nil {
				m.multiLive[file] = map[string]bool{}
			}
			m.multiLive[file][id] = true
		}
		if st.SkipAt >= 0 {
			m.skipped = append(m.skipped, st.Name)
		}
	}
	return m
}

func (m scnModel) protected(id string) bool {
	name := id
	if i := strings.LastIndex(id, " - "); i >= 0 {
		name = id[:i]
	}
	for _, s := range m.skipped {
		if name == s || strings.HasPrefix(name, s+"/") {
			return true
		}
	}
	return false
}

// execute runs every test count times in a fresh process; record=true runs the preparation (no skips, New calls omitted).
func (s cleanScn) execute(root string, mode Mode, count int, record bool) error {
	newProcess(mode)
	cfgs := make([]*Config, len(s.Cfgs))
	solos := make([]*Config, len(s.Cfgs))
	for i, c := range s.Cfgs {
		if !record && i < len(s.RunUpdate) && s.RunUpdate[i] != "" && c.Update == nil {
			c.Update = vhBoolp(s.RunUpdate[i] == "true")
		}
		cfgs[i] = c.build(root)
		solos[i] = soloOf(c).build(root)
	}
	for iter := 0; iter < count; iter++ {
		for _, st := range s.Tests {
			ft := newFakeT(st.Name)
			for k, c := range st.Calls {
				if !record && st.SkipAt == k {
					switch st.SkipKind {
					case "Skipf":
						callSkip(func() { Skipf(ft, "skipped %d", k) })
					case "SkipNow":
						callSkip(func() { SkipNow(ft) })
					case "SkipBare": // snaps.Skip(t) without a reason
						callSkip(func() { Skip(ft) })
					default:
						callSkip(func() { Skip(ft, "skipped") })
					}
					ft.drain()
					break
				}
				if record && (c.New || c.Ghost) {
					// recorded files must not contain this slot: stop recording this test here (later slots would shift)
					break
				}
				if c.Ghost {
					r := c.Call.invoke(cfgs[c.Call.Cfg], ft)
					if out, err := outcomeOf(r); err != nil || out != oFailed {
						return fmt.Errorf("run: %s call %d through Update(false) on a snapshot never recorded: outcome %q err %v, want failed", st.Name, k+1, out, err)
					}
					if scnOnCall != nil {
						scnOnCall(oFailed)
					}
					continue
				}
				cfg := cfgs[c.Call.Cfg]
				if c.Call.standalone() {
					cfg = solos[c.Call.Cfg]
				}
				call := c.Call
				if !record && c.Mut != "" {
					call = mutatedCall(call, c.Mut)
				}
				if record && c.Mut == "lost_newline" {
					// what was recorded had one more newline at its end (an end-of-file fixer touched the file / the value lost it)
					call = Call{API: c.Call.API, Cfg: c.Call.Cfg, Vals: []Val{strVal(c.Call.snapText() + "\n")}}
				}
				r := call.invoke(cfg, ft)
				out, err := outcomeOf(r)
				if err != nil {
					return fmt.Errorf("%s call %d (%s): %v", st.Name, k+1, call.API, err)
				}
				if !record && scnOnCall != nil {
					scnOnCall(out)
				}
				if !record && c.Mut != "" {
					continue
				}
				if record && out != oAdded {
					return fmt.Errorf("preparation: %s call %d (%s) outcome %s errors=%q", st.Name, k+1, c.Call.API, out, vhClipAll(r.Errors))
				}
				if !record && out == oFailed && !mode.CI {
					return fmt.Errorf("run: %s call %d (%s) failed: %q", st.Name, k+1, c.Call.API, vhClipAll(r.Errors))
				}
			}
			if !record && st.SkipAt == len(st.Calls) {
				callSkip(func() { Skip(ft, "skipped at the end") })
				ft.drain()
			}
			if !record && st.PlainSkip {
				ft.plainSkip()
			}
			ft.finish()
		}
	}
	return nil
}

// liveIDs are the entry ids that the calls of the scenario's tests address in the multi-entry file at path.
func (s cleanScn) liveIDs(path string) map[string]bool {
	live := map[string]bool{}
	for _, st := range s.Tests {
		n := 0
		for _, c := range st.Calls {
			if c.Call.standalone() || c.Call.Cfg < 0 || c.Call.Cfg >= len(s.Cfgs) || s.Cfgs[c.Call.Cfg].multiPath() != path {
				continue
			}
			n++
			live[entryID(st.Name, n)] = true
		}
	}
	return live
}

// prepare builds the pre-existing directory content: recording run + stale entries + extra items.
func (s cleanScn) prepare(root string) error {
	if err := s.execute(root, Mode{}, 1, true); err != nil {
		return err
	}
	// every recorded slot lies where the documented naming puts it (what is committed today must be found tomorrow by the
	// same rule - whichever release recorded it)
	for _, st := range s.Tests {
		sc := newSlotCounter()
		for _, c := range st.Calls {
			if c.New || c.Ghost {
				break
			}
			file, id := sc.slot(c.spec(s.Cfgs), st.Name, c.Call)
			data, err := os.ReadFile(filepath.Join(root, file))
			if err != nil {
				return fmt.Errorf("preparation: %s recorded a %s snapshot, but %q does not exist (directory: %v)", st.Name, c.Call.API, file, vhKeysOfState(snapDir(root)))
			}
			if id != "" && !strings.Contains(string(data), "\n["+id+"]\n") {
				return fmt.Errorf("preparation: %q holds no entry %q after %s recorded it", file, id, st.Name)
			}
		}
	}
	byCfg := map[int][]staleEntry{}
	for _, e := range s.Stale {
		byCfg[e.Cfg] = append(byCfg[e.Cfg], e)
	}
	for ci, list := range byCfg {
		p := filepath.Join(root, s.Cfgs[ci].multiPath())
		es, err := refParse(vhReadFile(p))
		if err != nil {
			return fmt.Errorf("preparation: recorded file not well formed: %v", err)
		}
		live := s.liveIDs(s.Cfgs[ci].multiPath())
		for _, e := range list {
			// an id that a call of the program addresses in this file is not stale, whether the recording stored it or the
			// run is going to add it (names of the pool are related: `TestAB` + sub test `9` is the pool's `TestAB/9`)
			if findEntry(es, string(e.ID)) >= 0 || live[string(e.ID)] {
				continue
			}
			pos := 0
			if len(es) > 0 {
				pos = e.Pos % (len(es) + 1)
			}
			es = append(es[:pos], append([]Entry{{ID: e.ID, Body: e.Body}}, es[pos:]...)...)
		}
		os.MkdirAll(filepath.Dir(p), 0o755)
		os.WriteFile(p, []byte(refRender(es)), 0o644)
	}
	if s.Dangling >= 0 && s.Dangling < len(s.Cfgs) {
		p := filepath.Join(root, s.Cfgs[s.Dangling].multiPath())
		if b, err := os.ReadFile(p); err == nil {
			os.WriteFile(p, append(b, []byte("\n[TestTruncatedXyz - 1]\na dangling line without terminator\nsecond dangling line\n")...), 0o644)
		}
	}
	if s.CRLF > 0 && s.CRLF <= len(s.Cfgs) {
		p := filepath.Join(root, s.Cfgs[s.CRLF-1].multiPath())
		if b, err := os.ReadFile(p); err == nil && !strings.Contains(string(b), "\r") {
			os.WriteFile(p, []byte(strings.ReplaceAll(string(b), "\n", "\r\n")), 0o644)
		}
	}
	for _, it := range s.Extra {
		p := filepath.Join(root, it.Path)
		if it.IsDir {
			os.MkdirAll(p, 0o755)
			continue
		}
		if _, err := os.Stat(p); err == nil {
			continue // never overwrite something the recording created
		}
		os.MkdirAll(filepath.Dir(p), 0o755)
		os.WriteFile(p, []byte(it.Data), 0o644)
	}
	return nil
}

type scnRun struct {
	root                 string
	preClean, afterClean dirState
	sum                  summaryInfo
	model                scnModel
}

func (s cleanScn) run() (*scnRun, func(), error) {
	root := scratchDir()
	cleanup := func() { os.RemoveAll(root) }
	if err := s.prepare(root); err != nil {
		return nil, cleanup, err
	}
	if err := s.execute(root, s.Mode, s.Count, false); err != nil {
		return nil, cleanup, err
	}
	ageDir(root)
	r := &scnRun{root: root, model: s.model()}
	r.preClean = snapDir(root)
	var opts []CleanOpts
	if s.Sort {
		opts = append(opts, CleanOpts{Sort: true})
	}
	restore := func() {}
	if s.FdHeadroom > 0 {
		restore = limitDescriptors(s.FdHeadroom)
	}
	if s.ReadOnly {
		undo := makeReadOnly(root)
		prev := restore
		restore = func() { undo(); prev() }
	}
	if s.Cpu != "" {
		fcpu := flag.Lookup("test.cpu")
		oldCPU := fcpu.Value.String()
		flag.Set("test.cpu", s.Cpu)
		defer flag.Set("test.cpu", oldCPU)
	}
	foreignTmp = s.ForeignTmp
	out := runClean(s.RunOnly, s.Count, opts...)
	foreignTmp = false
	restore()
	r.afterClean = snapDir(root)
	sum, err := parseSummary(out)
	if err != nil {
		return nil, cleanup, fmt.Errorf("summary: %v", err)
	}
	r.sum = sum
	return r, cleanup, nil
}

// makeReadOnly makes the tree below root read-only for the calling goroutine: directories 0555, files 0444, ancestors of root
// searchable, and the file-system uid/gid of the (locked) OS thread set to an unprivileged user (root ignores permission
// bits). The returned function undoes all of it. Linux only; on failure nothing is changed.
func makeReadOnly(root string) func() {
	type mode struct {
		p string
		m os.FileMode
	}
	var saved []mode
	// the ancestors (scratch directories shared with the other shard processes) become searchable and stay so
	for p := filepath.Dir(root); p != "/" && p != "/tmp" && p != "."; p = filepath.Dir(p) {
		if fi, err := os.Stat(p); err == nil && fi.Mode().Perm()&0o055 != 0o055 {
			os.Chmod(p, fi.Mode().Perm()|0o055)
		}
	}
	filepath.Walk(root, func(p string, info os.FileInfo, err error) error {
		if err != nil || info.Mode()&os.ModeSymlink != 0 {
			return nil
		}
		saved = append(saved, mode{p, info.Mode().Perm()})
		if info.IsDir() {
			os.Chmod(p, 0o555)
		} else {
			os.Chmod(p, 0o444)
		}
		return nil
	})
	runtime.LockOSThread()
	syscall.Setfsgid(65534)
	syscall.Setfsuid(65534)
	return func() {
		syscall.Setfsuid(0)
		syscall.Setfsgid(0)
		runtime.UnlockOSThread()
		for i := len(saved) - 1; i >= 0; i-- {
			os.Chmod(saved[i].p, saved[i].m)
		}
	}
}

// limitDescriptors lowers the soft RLIMIT_NOFILE to the descriptors currently open plus headroom; the returned function
// restores the previous limit.
func limitDescriptors(headroom int) func() {
	var old syscall.Rlimit
	if err := syscall.Getrlimit(syscall.RLIMIT_NOFILE, &old); err != nil {
		return func() {}
	}
	open := 0
	if es, err := os.ReadDir("/proc/self/fd"); err == nil {
		for _, e := range es {
			if n, err := strconv.Atoi(e.Name()); err == nil && n+1 > open {
				open = n + 1 // the limit bounds the highest descriptor NUMBER
			}
		}
	}
	if open == 0 {
		return func() {}
	}
	lim := old
	lim.Cur = uint64(open + headroom)
	if lim.Cur > old.Max {
		return func() {}
	}
	if err := syscall.Setrlimit(syscall.RLIMIT_NOFILE, &lim); err != nil {
		return func() {}
	}
	return func() { syscall.Setrlimit(syscall.RLIMIT_NOFILE, &old) }
}

func vhRelTo(root, p string) string {
	if r, err := filepath.Rel(root, p); err == nil {
		return r
	}
	return p
}

// ---- C07 ---------------------------------------------------------------------------------------------

func checkC07(s cleanScn) error {
	r, cleanup, err := s.run()
	defer cleanup()
	if err != nil {
		return err
	}
	listedFiles := map[string]bool{}
	for _, f := range r.sum.Files {
		listedFiles[vhRelTo(r.root, f)] = true
	}
	// the summary lists ids without their file: an id may be listed once for every addressed file in which
	// an entry of that id exists without having been addressed there
	listedTests := map[string]int{}
	for _, id := range r.sum.Tests {
		listedTests[id]++
	}
	allowedListings := map[string]int{}
	for file, ids := range r.model.multiLive {
		pre := refParseLoose(r.preClean[file].Data)
		for _, e := range pre {
			if !ids[string(e.ID)] {
				allowedListings[string(e.ID)]++
			}
		}
	}
	for id, n := range listedTests {
		if id == "TestTruncatedXyz - 1" {
			continue
		}
		if n > allowedListings[id] {
			for _, ids := range r.model.multiLive {
				if ids[id] {
					return fmt.Errorf("entry %q was addressed in this run but the summary lists it as obsolete (%d listing(s), %d unaddressed entries with that id)", id, n, allowedListings[id])
				}
			}
		}
	}
	// under CI a call on a missing snapshot fails and creates nothing: such a slot was addressed but has nothing to keep
	for file, ids := range r.model.multiLive {
		if listedFiles[file] {
			return fmt.Errorf("addressed file %q is listed as obsolete", file)
		}
		pre := refParseLoose(r.preClean[file].Data)
		if _, ok := r.afterClean[file]; !ok {
			if _, existed := r.preClean[file]; existed {
				return fmt.Errorf("addressed file %q was deleted by Clean", file)
			}
			continue
		}
		post, perr := refParse(r.afterClean[file].Data)
		if perr != nil && s.Dangling < 0 && s.CRLF == 0 {
			return fmt.Errorf("file %q after Clean is not well formed: %v; content %q", file, perr, vhClip(r.afterClean[file].Data))
		}
		if perr != nil {
			post = refParseLoose(r.afterClean[file].Data)
		}
		for id := range ids {
			i := findEntry(pre, id)
			if i < 0 {
				continue // CI: never created
			}
			j := findEntry(post, id)
			if j < 0 {
				return fmt.Errorf("entry %q of %q was addressed in this run (count %d, run %q, mode %+v sort=%v) but Clean removed it", id, file, s.Count, s.RunOnly, s.Mode, s.Sort)
			}
			if post[j].Body != pre[i].Body {
				return fmt.Errorf("entry %q of %q was addressed in this run but Clean altered it: %q -> %q", id, file, vhClip(string(pre[i].Body)), vhClip(string(post[j].Body)))
			}
		}
	}
	for file := range r.model.soloLive {
		pre, existed := r.preClean[file]
		if !existed {
			continue // CI: never created
		}
		post, ok := r.afterClean[file]
		if !ok {
			return fmt.Errorf("standalone file %q was addressed in this run (count %d, mode %+v) but Clean deleted it", file, s.Count, s.Mode)
		}
		if post.Data != pre.Data {
			return fmt.Errorf("standalone file %q was addressed in this run but Clean altered it", file)
		}
		if listedFiles[file] {
			return fmt.Errorf("standalone file %q was addressed in this run but the summary lists it as obsolete", file)
		}
	}
	// a read-only replay of the program still passes on everything that existed
	if !s.Mode.CI {
		newProcess(Mode{CI: true})
		cfgs := make([]*Config, len(s.Cfgs))
		solos := make([]*Config, len(s.Cfgs))
		for i, c := range s.Cfgs {
			cfgs[i] = c.build(r.root)
			solos[i] = soloOf(c).build(r.root)
		}
		for _, st := range s.Tests {
			ft := newFakeT(st.Name)
			for k, c := range st.Calls {
				if (st.SkipAt >= 0 && k >= st.SkipAt) || c.Ghost {
					break
				}
				cfg := cfgs[c.Call.Cfg]
				if c.Call.standalone() {
					cfg = solos[c.Call.Cfg]
				}
				res := c.Call.invoke(cfg, ft)
				if out, err := outcomeOf(res); err != nil || out != oPassed {
					return fmt.Errorf("after Clean, replaying %s call %d (%s): outcome %q err %v errors=%q", st.Name, k+1, c.Call.API, out, err, vhClipAll(res.Errors))
				}
			}
			ft.finish()
		}
	}
	return nil
}

func classifyCleanScn(s cleanScn) ([]string, bool) {
	var cls []string
	hasSolo, hasMulti, long := false, false, false
	for _, st := range s.Tests {
		if len(st.Calls) >= 10 {
			long = true
		}
		if st.SkipAt >= 0 {
			cls = append(cls, "skip_protected_test")
		}
		for _, c := range st.Calls {
			if c.Call.standalone() {
				hasSolo = true
			} else {
				hasMulti = true
			}
			if c.New {
				cls = append(cls, "slot_added_in_this_run")
			}
			if c.Ghost {
				cls = append(cls, "visited_directory_that_never_came_into_existence")
			}
			if s.ForeignTmp {
				cls = append(cls, "tmpdir_on_another_file_system")
			}
			if s.StandaloneOnly {
				cls = append(cls, "only_standalone_calls_in_the_process")
			}
			if len(s.RunUpdate) > 0 {
				cls = append(cls, "configs_carry_an_update_option_in_the_run")
			}
			if st.PlainSkip {
				cls = append(cls, "test_ends_with_plain_t_skip")
			}
			if c.Mut == "matcher" || c.Mut == "invalid" {
				cls = append(cls, "call_rejected_before_the_comparison")
			}
		}
	}
	if s.Count > 1 {
		cls = append(cls, "count_gt_1")
	}
	if long {
		cls = append(cls, "ten_or_more_calls")
	}
	if hasSolo && hasMulti {
		cls = append(cls, "standalone_and_multi_mixed")
	}
	if len(s.Stale) > 0 {
		cls = append(cls, "stale_entries_present")
	}
	staleFile := false
	for _, it := range s.Extra {
		if !it.IsDir && strings.Contains(filepath.Base(it.Path), ".snap") && (filepath.Dir(it.Path) == "snaps" || filepath.Dir(it.Path) == s.MainDir) {
			staleFile = true
		}
	}
	if staleFile {
		cls = append(cls, "stale_files_present")
	}
	deletes := !s.Mode.CI && (s.Mode.Update == "true" || s.Mode.Update == "clean")
	if deletes {
		cls = append(cls, "clean_mode")
	} else {
		cls = append(cls, "report_mode")
	}
	if s.Sort {
		cls = append(cls, "sort")
	}
	if s.Sort && !deletes && len(s.Stale) > 0 && !s.Mode.CI {
		cls = append(cls, "sort_with_stale_no_clean")
	}
	if s.RunOnly != "" {
		cls = append(cls, "run_filter")
	}
	if s.Dangling >= 0 {
		cls = append(cls, "file_with_unterminated_last_entry")
	}
	if s.FdHeadroom > 0 {
		cls = append(cls, "more_addressed_files_than_free_descriptors")
	}
	if s.ReadOnly {
		cls = append(cls, "read_only_tree_during_clean")
	}
	if strings.Contains(s.Cpu, ",") {
		cls = append(cls, "test_cpu_list_with_empty_element")
	}
	if s.CRLF > 0 {
		cls = append(cls, "preexisting_file_with_crlf_line_ends")
	}
	if s.MainDir != "" && s.MainDir != "snaps" {
		cls = append(cls, "glob_metacharacters_in_dir")
	}
	if s.Mode.CI {
		cls = append(cls, "ci")
	}
	cls = vhUniq(cls)
	return cls, true
}

func classifyC07(s cleanScn) ([]string, bool) {
	cls, _ := classifyCleanScn(s)
	nt := false
	for _, k := range cls {
		switch k {
		case "count_gt_1", "ten_or_more_calls", "standalone_and_multi_mixed", "stale_entries_present":
			nt = true
		}
	}
	return cls, nt
}

func TestC07_CleanKeepsMatched(t *testing.T) {
	prop[cleanScn]{property: "C07", check: checkC07, classify: classifyC07,
		gen: func(t *rapid.T) cleanScn {
			return genCleanScn(t, getCollector("C07", "TestC07_CleanKeepsMatched"), scnOpts{runFilter: true, rejects: true})
		}}.run(t)
}

// ---- C09 ---------------------------------------------------------------------------------------------

func checkC09(s cleanScn) error {
	r, cleanup, err := s.run()
	defer cleanup()
	if err != nil {
		return err
	}
	m := r.model
	deletes := !s.Mode.CI && (s.Mode.Update == "true" || s.Mode.Update == "clean")
	sorts := s.Sort && !s.Mode.CI

	// model: stale items
	staleFiles := map[string]bool{}
	for p, st := range r.preClean {
		if st.IsDir || !m.visited[filepath.Dir(p)] || !strings.Contains(filepath.Base(p), ".snap") {
			continue
		}
		if _, ok := m.multiLive[p]; ok {
			continue
		}
		if m.soloLive[p] {
			continue
		}
		staleFiles[p] = true
	}
	type entryKey struct{ file, id string }
	staleEntries := map[entryKey]bool{}
	protectedEntries := map[entryKey]bool{}
	for file, live := range m.multiLive {
		es, perr := refParse(r.preClean[file].Data)
		if perr != nil {
			return fmt.Errorf("harness: file %q not well formed before Clean: %v", file, perr)
		}
		for _, e := range es {
			id := string(e.ID)
			switch {
			case live[id]:
			case m.protected(id):
				protectedEntries[entryKey{file, id}] = true
			default:
				staleEntries[entryKey{file, id}] = true
			}
		}
	}

	listedFiles := map[string]bool{}
	for _, f := range r.sum.Files {
		rel := vhRelTo(r.root, f)
		listedFiles[rel] = true
		if _, ok := m.multiLive[rel]; ok || m.soloLive[rel] {
			return fmt.Errorf("file %q was addressed in this run but is listed as obsolete", rel)
		}
		if !staleFiles[rel] {
			return fmt.Errorf("file %q is listed as obsolete but is not an unaddressed `.snap` file directly inside a visited directory", rel)
		}
	}
	for f := range staleFiles {
		if !listedFiles[f] {
			return fmt.Errorf("unaddressed file %q in a visited snapshot directory is not reported as obsolete (summary: %q)", f, vhClip(r.sum.Raw))
		}
	}
	// entries: the summary lists ids without their file; compare as multisets over all files
	wantIDs := map[string]int{}
	for k := range staleEntries {
		wantIDs[k.id]++
	}
	maxIDs := map[string]int{}
	for k := range staleEntries {
		maxIDs[k.id]++
	}
	// entries of skip-protected tests are NOT obsolete ("... is reported obsolete unless it belongs to a skip-protected test"):
	// in these scenarios (no -run filter, skipped tests share their files with running tests) nothing else can excuse listing them
	gotIDs := map[string]int{}
	for _, id := range r.sum.Tests {
		gotIDs[id]++
	}
	for id, n := range wantIDs {
		if gotIDs[id] < n {
			return fmt.Errorf("stale entry %q (slot not addressed, test not skip-protected) is not reported as obsolete; listed: %v", id, r.sum.Tests)
		}
	}
	for id, n := range gotIDs {
		if n > maxIDs[id] {
			return fmt.Errorf("entry %q is reported as obsolete %d time(s) but only %d stale entries have that id (addressed entries and entries of skip-protected tests must never be listed; skipped: %v)", id, n, maxIDs[id], m.skipped)
		}
	}
	if len(r.sum.Files) > 0 {
		if want := map[bool]string{true: "removed", false: "obsolete"}[deletes]; r.sum.FileAction != want {
			return fmt.Errorf("summary says files %q, mode %+v implies %q", r.sum.FileAction, s.Mode, want)
		}
	}
	if len(r.sum.Tests) > 0 {
		if want := map[bool]string{true: "removed", false: "obsolete"}[deletes]; r.sum.TestAction != want {
			return fmt.Errorf("summary says tests %q, mode %+v implies %q", r.sum.TestAction, s.Mode, want)
		}
	}

	// effects on the directory
	if s.ReadOnly {
		deletes = false // nothing can be removed from a read-only tree: the items are listed all the same
	}
	for p, pre := range r.preClean {
		post, exists := r.afterClean[p]
		_, isMulti := m.multiLive[p]
		switch {
		case pre.IsDir:
			if !exists {
				return fmt.Errorf("directory %q was removed by Clean", p)
			}
		case staleFiles[p]:
			if deletes && exists {
				return fmt.Errorf("clean mode: obsolete file %q was reported but not removed", p)
			}
			if !deletes && (!exists || post.Data != pre.Data || !post.Mtime.Equal(pre.Mtime)) {
				return fmt.Errorf("mode %+v does not allow deleting, but obsolete file %q was removed or written", s.Mode, p)
			}
		case isMulti:
			if !exists {
				return fmt.Errorf("addressed file %q was removed", p)
			}
			preEs, _ := refParse(pre.Data)
			postEs, perr := refParse(post.Data)
			if perr != nil {
				return fmt.Errorf("file %q after Clean is not well formed: %v", p, perr)
			}
			var want []Entry
			for _, e := range preEs {
				k := entryKey{p, string(e.ID)}
				if deletes && staleEntries[k] {
					continue
				}

				want = append(want, e)
			}
			if err := sameMultiset(want, postEs); err != nil {
				return fmt.Errorf("file %q (mode %+v sort=%v): entries after Clean are not exactly the non-removed ones: %v\nbefore: %s\nafter:  %s", p, s.Mode, s.Sort, err, describeEntries(preEs), describeEntries(postEs))
			}
			if !sorts && !entriesEqual(want, postEs) {
				return fmt.Errorf("file %q: no sorting requested but entries were reordered", p)
			}
		default:
			// unrelated files, standalone files in use, files in sub-directories and in directories no test addressed
			if !exists {
				return fmt.Errorf("%q is not an obsolete snapshot item but Clean removed it", p)
			}
			if post.Data != pre.Data || !post.Mtime.Equal(pre.Mtime) {
				return fmt.Errorf("%q is not an obsolete snapshot item but Clean wrote it", p)
			}
		}
	}
	for p := range r.afterClean {
		if _, ok := r.preClean[p]; !ok {
			return fmt.Errorf("Clean created %q", p)
		}
	}
	return nil
}

func classifyC09(s cleanScn) ([]string, bool) {
	cls, _ := classifyCleanScn(s)
	hasE, hasF := false, false
	for _, k := range cls {
		if k == "stale_entries_present" {
			hasE = true
		}
		if k == "stale_files_present" {
			hasF = true
		}
	}
	return cls, hasE && hasF
}

func TestC09_CleanReportsStale(t *testing.T) {
	prop[cleanScn]{property: "C09", check: checkC09, classify: classifyC09,
		gen: func(t *rapid.T) cleanScn {
			return genCleanScn(t, getCollector("C09", "TestC09_CleanReportsStale"), scnOpts{skips: true, rejects: true})
		}}.run(t)
}

// mutatedCall: the same call with a changed value or with a matcher that fails.
func mutatedCall(c Call, mut string) Call {
	if mut == "lost_newline" {
		return c // the recorded value is the one that differs (see execute)
	}
	if mut == "invalid" && (c.API == "json" || c.API == "sjson" || c.API == "yaml") {
		c.Form, c.Matchers = "string", nil
		c.Doc = `{"a": [1, }`
		if c.API == "yaml" {
			c.Doc = "a: [1\nb: }"
		}
		return c
	}
	if mut == "matcher" && (c.API == "json" || c.API == "sjson" || c.API == "yaml") {
		path := "no.such.path"
		if c.API == "yaml" {
			path = "$.no.such.path"
		}
		c.Matchers = []MatcherSpec{{Kind: "any", Paths: []string{path}}}
		return c
	}
	switch c.API {
	case "snap", "ssnap":
		c.Vals = []Val{strVal("a changed value " + c.snapText())}
	case "json", "sjson":
		c.Doc = BS(`{"changed":` + string(c.Doc) + `}`)
		if c.Form == "value" {
			c.Form = "string"
		}
	case "yaml":
		c.Doc = "changed: true\n"
		c.Form = "string"
	}
	return c
}

// ---- C20: all five entry points, every outcome class, then Clean: the summary totals equal the tallies ----------------

func genC20Scn(t *rapid.T) cleanScn {
	s := genCleanScn(t, getCollector("C20", "TestC20_AllAPIs"), scnOpts{skips: true})
	for ti := range s.Tests {
		for ci := range s.Tests[ti].Calls {
			if s.Tests[ti].Calls[ci].New {
				continue
			}
			switch rapid.IntRange(0, 5).Draw(t, "mut") {
			case 0:
				s.Tests[ti].Calls[ci].Mut = "changed"
			case 1:
				s.Tests[ti].Calls[ci].Mut = "matcher"
			case 2:
				if c := s.Tests[ti].Calls[ci].Call; (c.API == "ssnap" || c.API == "snap") && len(c.Vals) == 1 && c.Vals[0].Kind == "str" && !hasTrailingCR(c.snapText()+"\n") {
					s.Tests[ti].Calls[ci].Mut = "lost_newline"
				}
			}
		}
	}
	return s
}

func checkC20Scn(s cleanScn) error {
	tally := map[string]int{}
	scnOnCall = func(out string) { tally[out]++ }
	defer func() { scnOnCall = nil }()
	r, cleanup, err := s.run()
	defer cleanup()
	if err != nil {
		return err
	}
	skips := 0
	for _, st := range s.Tests {
		if st.SkipAt >= 0 {
			skips += s.Count
		}
	}
	total := 0
	for _, n := range tally {
		total += n
	}
	if !r.sum.Present {
		if total+skips > 0 {
			return fmt.Errorf("no summary printed although the process had outcomes %v and %d skips", tally, skips)
		}
		return nil
	}
	if err := checkSummaryTotals(r.sum, tally, skips); err != nil {
		return fmt.Errorf("mode %+v count %d: %v", s.Mode, s.Count, err)
	}
	// the files Clean judges obsolete (unaddressed `.snap` files directly inside a visited directory) are listed, all of them,
	// each once, and nothing else - whether or not they could be removed
	m := r.model
	listed := map[string]bool{}
	for _, f := range r.sum.Files {
		if listed[vhRelTo(r.root, f)] {
			return fmt.Errorf("file %q is listed twice in the summary: %q", vhRelTo(r.root, f), vhClip(r.sum.Raw))
		}
		listed[vhRelTo(r.root, f)] = true
	}
	// an id is listed at most as often as there are used files holding an entry with that id
	holders := map[string]int{}
	for file := range m.multiLive {
		es, _ := refParse(r.preClean[file].Data)
		seen := map[string]bool{}
		for _, e := range es {
			if !seen[string(e.ID)] {
				seen[string(e.ID)] = true
				holders[string(e.ID)]++
			}
		}
	}
	times := map[string]int{}
	for _, id := range r.sum.Tests {
		times[id]++
		if times[id] > holders[id] {
			return fmt.Errorf("entry %q is listed %d times in the summary but only %d used file(s) hold an entry with that id: %q", id, times[id], holders[id], vhClip(r.sum.Raw))
		}
	}
	for p, st := range r.preClean {
		if st.IsDir || !m.visited[filepath.Dir(p)] || !strings.Contains(filepath.Base(p), ".snap") {
			continue
		}
		_, multi := m.multiLive[p]
		if multi || m.soloLive[p] {
			if listed[p] {
				return fmt.Errorf("file %q was addressed in this process but the summary lists it as obsolete", p)
			}
			continue
		}
		if !listed[p] {
			return fmt.Errorf("unaddressed file %q in a visited snapshot directory is missing from the summary's obsolete list (mode %+v, read-only tree %v); summary %q", p, s.Mode, s.ReadOnly, vhClip(r.sum.Raw))
		}
	}
	return nil
}

func TestC20_AllAPIs(t *testing.T) {
	prop[cleanScn]{property: "C20", gen: genC20Scn, check: checkC20Scn, weight: 0.5,
		classify: func(s cleanScn) ([]string, bool) {
			cls, _ := classifyCleanScn(s)
			kinds := map[string]bool{}
			for _, st := range s.Tests {
				for _, c := range st.Calls {
					if c.Mut != "" {
						kinds["mut_"+c.Mut+"_"+c.Call.API] = true
					}
				}
			}
			for k := range kinds {
				cls = append(cls, k)
			}
			sort.Strings(cls)
			return cls, len(kinds) >= 2
		}}.run(t)
}
