//go:build verif

// Generic harness core (no dependency on package snaps): byte strings, directory snapshots, evidence
// collector, replay files and the property runner. The black-box harness reuses this file under another package name.
package snaps

import (
	stdcontext "context"
	"crypto/sha256"
	"encoding/binary"
	"encoding/json"
	"errors"
	"flag"
	"fmt"
	"os"
	"os/exec"
	"path/filepath"
	"runtime/debug"
	"sort"
	"strconv"
	"strings"
	"sync"
	"testing"
	"time"

	"pgregory.net/rapid"
)

// propInit runs at the start of every property (the white-box core sets NO_COLOR there).
var propInit = func() {}

// ---------------------------------------------------------------------------------------------
// BS: a byte string that survives JSON (invalid UTF-8 included): encoded as a Go-quoted literal.

type BS string

func (b BS) MarshalJSON() ([]byte, error) {
	return json.Marshal(strconv.Quote(string(b)))
}

func (b *BS) UnmarshalJSON(data []byte) error {
	var q string
	if err := json.Unmarshal(data, &q); err != nil {
		return err
	}
	s, err := strconv.Unquote(q)
	if err != nil {
		return fmt.Errorf("BS: %w (%q)", err, q)
	}
	*b = BS(s)
	return nil
}

// ---------------------------------------------------------------------------------------------
// directory snapshots

type fileState struct {
	Data  string
	Mode  os.FileMode
	Mtime time.Time
	IsDir bool
}

type dirState map[string]fileState

var pastTime = time.Date(2001, 2, 3, 4, 5, 6, 0, time.UTC)

// snapDir reads the whole tree below root.
func snapDir(root string) dirState {
	st := dirState{}
	filepath.Walk(root, func(p string, info os.FileInfo, err error) error {
		if err != nil || p == root {
			return nil
		}
		rel, _ := filepath.Rel(root, p)
		if info.IsDir() {
			st[rel] = fileState{IsDir: true, Mode: info.Mode()}
			return nil
		}
		b, _ := os.ReadFile(p)
		st[rel] = fileState{Data: string(b), Mode: info.Mode(), Mtime: info.ModTime()}
		return nil
	})
	return st
}

// ageDir sets the mtime of every regular file below root to a fixed past instant so that
// any later write (even of identical bytes) is visible as an mtime change.
func ageDir(root string) {
	filepath.Walk(root, func(p string, info os.FileInfo, err error) error {
		if err == nil && !info.IsDir() {
			os.Chtimes(p, pastTime, pastTime)
		}
		return nil
	})
}

// diffDirs describes the difference in names and bytes (and mtimes when withMtime).
func diffDirs(before, after dirState, withMtime bool) string {
	var out []string
	for p, b := range before {
		a, ok := after[p]
		switch {
		case !ok:
			out = append(out, fmt.Sprintf("removed %q", p))
		case a.IsDir != b.IsDir:
			out = append(out, fmt.Sprintf("kind changed %q", p))
		case a.Data != b.Data:
			out = append(out, fmt.Sprintf("content changed %q: %q -> %q", p, vhClip(b.Data), vhClip(a.Data)))
		case withMtime && !a.IsDir && !a.Mtime.Equal(b.Mtime):
			out = append(out, fmt.Sprintf("written (mtime moved) %q", p))
		}
	}
	for p := range after {
		if _, ok := before[p]; !ok {
			out = append(out, fmt.Sprintf("created %q", p))
		}
	}
	sort.Strings(out)
	return strings.Join(out, "; ")
}

func vhClip(s string) string {
	if len(s) > 300 {
		return s[:150] + "…" + s[len(s)-150:]
	}
	return s
}

// ---------------------------------------------------------------------------------------------
// scratch dirs

func scratchDir() string {
	base := os.Getenv("VERIF_SCRATCH")
	if base == "" {
		base = os.TempDir()
	}
	d, err := os.MkdirTemp(base, "case")
	if err != nil {
		panic(err)
	}
	return d
}

// ---------------------------------------------------------------------------------------------
// evidence collector

type collector struct {
	mu         sync.Mutex
	Property   string            `json:"property"`
	Test       string            `json:"test"`
	Shard      int               `json:"shard"`
	Requested  int               `json:"requested"`
	Evals      int               `json:"evaluations"`
	Nontrivial []string          `json:"nontrivial_hashes"`
	Classes    map[string]int    `json:"classes"`
	Samples    []json.RawMessage `json:"samples"`
	Excluded   map[string]int    `json:"excluded"`
	Exhaustive bool              `json:"exhaustive"`
	Corpus     int               `json:"corpus_replayed"`
	Failed     bool              `json:"failed"`
	Notes      []string          `json:"notes,omitempty"`
	seen       map[uint64]struct{}
	frozen     bool
}

var (
	collectors   = map[string]*collector{}
	collectorsMu sync.Mutex
)

func getCollector(property, test string) *collector {
	collectorsMu.Lock()
	defer collectorsMu.Unlock()
	if c, ok := collectors[test]; ok {
		return c
	}
	shard, _ := strconv.Atoi(os.Getenv("VERIF_SHARD"))
	c := &collector{Property: property, Test: test, Shard: shard, Classes: map[string]int{}, Excluded: map[string]int{}, seen: map[uint64]struct{}{}}
	collectors[test] = c
	return c
}

const maxSamples = 4

// record counts one generated case. Calls after the first failure (shrinking) are ignored.
func (c *collector) record(caseJSON []byte, classes []string, nontrivial bool) {
	c.mu.Lock()
	defer c.mu.Unlock()
	if c.frozen {
		return
	}
	c.Evals++
	for _, k := range classes {
		c.Classes[k]++
	}
	if nontrivial {
		h := sha256.Sum256(caseJSON)
		k := binary.LittleEndian.Uint64(h[:8])
		if _, ok := c.seen[k]; !ok {
			c.seen[k] = struct{}{}
			if len(c.Samples) < maxSamples && len(caseJSON) < 6000 {
				c.Samples = append(c.Samples, json.RawMessage(append([]byte(nil), caseJSON...)))
			}
		}
	}
}

// bump counts an observation made while checking (e.g. "the call reported an error").
func (c *collector) bump(class string) {
	c.mu.Lock()
	if !c.frozen {
		c.Classes[class]++
	}
	c.mu.Unlock()
}

func (c *collector) exclude(what string) {
	c.mu.Lock()
	if !c.frozen {
		c.Excluded[what]++
	}
	c.mu.Unlock()
}

func (c *collector) freeze() {
	c.mu.Lock()
	c.frozen = true
	c.Failed = true
	c.mu.Unlock()
}

func (c *collector) flush() {
	dir := os.Getenv("VERIF_OUT")
	if dir == "" {
		return
	}
	c.mu.Lock()
	defer c.mu.Unlock()
	c.Nontrivial = c.Nontrivial[:0]
	for k := range c.seen {
		c.Nontrivial = append(c.Nontrivial, strconv.FormatUint(k, 16))
	}
	sort.Strings(c.Nontrivial)
	b, _ := json.Marshal(c)
	os.WriteFile(filepath.Join(dir, fmt.Sprintf("part.%s.%d.json", c.Test, c.Shard)), b, 0o644)
}

// ---------------------------------------------------------------------------------------------
// replay files

type replayFile struct {
	Property string          `json:"property"`
	Test     string          `json:"test"`
	Error    string          `json:"error"`
	Known    string          `json:"known,omitempty"`
	Case     json.RawMessage `json:"case"`
}

func writeReplay(property, test, known string, caseJSON []byte, err error) {
	dir := os.Getenv("VERIF_OUT")
	if dir == "" {
		return
	}
	shard := os.Getenv("VERIF_SHARD")
	b, _ := json.MarshalIndent(replayFile{Property: property, Test: test, Error: err.Error(), Known: known, Case: caseJSON}, "", " ")
	os.WriteFile(filepath.Join(dir, fmt.Sprintf("fail.%s.%s.json", test, shard)), b, 0o644)
}

// ---------------------------------------------------------------------------------------------
// the generic property runner

type prop[C any] struct {
	property string // Cxx
	// gen draws a case; it must use only rapid generators.
	gen func(t *rapid.T) C
	// check runs the real code on the case and returns nil if the property held.
	check func(c C) error
	// classify returns coverage classes and whether the case is non-trivial by the property's rule.
	classify func(c C) (classes []string, nontrivial bool)
	// known maps a failing case to the id of a known finding ("" = none).
	known func(c C, err error) string
	// weight scales -rapid.checks for this test (default 1).
	weight float64
	// fresh: one in `fresh` cases (chosen by the hash of the case) is checked a second time in a brand-new process of this
	// test binary, where nothing ran before it (default 16 for generated search, 0 = never for enumerations; -1 = never).
	// Package-level state that a change introduces (memo tables, "first call" flags, pools) is invisible to a harness that
	// runs thousands of cases in one process: after the first case the state is always warm.
	fresh int
}

func vhMustJSON(v any) []byte {
	b, err := json.Marshal(v)
	if err != nil {
		panic(err)
	}
	return b
}

// safeCheck turns panics of the code under test (or of the harness) into failures with a stack-free message.
func safeCheck[C any](check func(C) error, c C) (err error) {
	defer func() {
		if r := recover(); r != nil {
			st := string(debug.Stack())
			if len(st) > 2500 {
				st = st[:2500]
			}
			err = fmt.Errorf("panic: %v\n%s", r, st)
		}
	}()
	return check(c)
}

func (p prop[C]) run(t *testing.T) {
	test := t.Name()
	col := getCollector(p.property, test)
	defer col.flush()
	propInit()

	// 1. replay of one file
	if rf := os.Getenv("VERIF_REPLAY"); rf != "" {
		raw, err := os.ReadFile(rf)
		if err != nil {
			t.Fatalf("replay: %v", err)
		}
		var r replayFile
		if err := json.Unmarshal(raw, &r); err != nil {
			t.Fatalf("replay: %v", err)
		}
		if r.Test != "" && r.Test != test {
			t.Skipf("replay file is for %s", r.Test)
		}
		var c C
		if err := json.Unmarshal(r.Case, &c); err != nil {
			t.Fatalf("replay: case does not decode: %v", err)
		}
		cls, nt := p.classifySafe(c)
		col.record(r.Case, cls, nt)
		if err := safeCheck(p.check, c); err != nil {
			col.freeze()
			writeReplay(p.property, test, p.knownOf(c, err), r.Case, err)
			t.Fatalf("replayed case fails: %v", err)
		}
		return
	}

	// 2. committed corpus (shard 0 only)
	if dir := os.Getenv("VERIF_CORPUS"); dir != "" && col.Shard == 0 {
		files, _ := filepath.Glob(filepath.Join(dir, "*.json"))
		sort.Strings(files)
		for _, f := range files {
			raw, err := os.ReadFile(f)
			if err != nil {
				continue
			}
			var r replayFile
			if json.Unmarshal(raw, &r) != nil || r.Test != test {
				continue
			}
			var c C
			if err := json.Unmarshal(r.Case, &c); err != nil {
				t.Fatalf("corpus %s: case does not decode: %v", f, err)
			}
			col.Corpus++
			if err := safeCheck(p.check, c); err != nil {
				col.freeze()
				writeReplay(p.property, test, p.knownOf(c, err), r.Case, fmt.Errorf("corpus case %s: %w", filepath.Base(f), err))
				t.Fatalf("corpus case %s fails: %v", f, err)
			}
		}
	}

	// 3. generated search
	base := flag.Lookup("rapid.checks").Value.String()
	n, _ := strconv.Atoi(base)
	w := p.weight
	if w == 0 {
		w = 1
	}
	want := int(float64(n) * w)
	if want < 1 {
		want = 1
	}
	flag.Set("rapid.checks", strconv.Itoa(want))
	defer flag.Set("rapid.checks", base)
	col.Requested += want

	fresh := p.fresh
	if fresh == 0 {
		fresh = 16
	}
	if os.Getenv("VERIF_BB_SCN") != "" {
		fresh = -1 // black-box cases are real processes already
	}
	spawned := 0
	rapid.Check(t, func(rt *rapid.T) {
		c := p.gen(rt)
		cj := vhMustJSON(c)
		cls, nt := p.classifySafe(c)
		col.record(cj, cls, nt)
		if err := safeCheck(p.check, c); err != nil {
			col.freeze()
			writeReplay(p.property, test, p.knownOf(c, err), cj, err)
			rt.Fatalf("%s: %v\ncase: %s", p.property, err, vhClip(string(cj)))
		}
		if fresh > 0 && spawned < maxFreshChildren && freshDue(cj, fresh) {
			spawned++
			col.bump("also_checked_in_a_fresh_process")
			if err := freshProcessCheck(p.property, test, cj); err != nil {
				err = fmt.Errorf("in a fresh process, where nothing ran before this case (the same case passes after other cases ran in the process): %w", err)
				col.freeze()
				writeReplay(p.property, test, p.knownOf(c, err), cj, err)
				rt.Fatalf("%s: %v\ncase: %s", p.property, err, vhClip(string(cj)))
			}
		}
	})
}

const maxFreshChildren = 25

func freshDue(cj []byte, n int) bool {
	h := sha256.Sum256(cj)
	return int(binary.BigEndian.Uint32(h[:4])%uint32(n)) == 0
}

// freshProcessCheck runs the check of one case in a new process of this test binary (the replay path of the runner).
// A child that cannot be started or does not finish in time makes the re-check inconclusive (nil), never a failure.
func freshProcessCheck(property, test string, cj []byte) error {
	if os.Getenv("VERIF_REPLAY") != "" || os.Getenv("VERIF_CHILD") != "" {
		return nil
	}
	dir, err := os.MkdirTemp(os.Getenv("VERIF_SCRATCH"), "child")
	if err != nil {
		return nil
	}
	defer os.RemoveAll(dir)
	rf := filepath.Join(dir, "case.json")
	b, _ := json.Marshal(replayFile{Property: property, Test: test, Case: cj})
	if os.WriteFile(rf, b, 0o644) != nil {
		return nil
	}
	ctx, cancel := stdcontext.WithTimeout(stdcontext.Background(), 180*time.Second)
	defer cancel()
	cmd := exec.CommandContext(ctx, os.Args[0], "-test.run", "^"+test+"$", "-test.count=1", "-test.timeout=170s")
	cmd.Env = append(os.Environ(), "VERIF_REPLAY="+rf, "VERIF_OUT="+dir, "VERIF_CHILD=1", "VERIF_CORPUS=")
	out, runErr := cmd.CombinedOutput()
	if runErr == nil {
		return nil
	}
	if ctx.Err() != nil || strings.Contains(string(out), "test timed out") {
		getCollector(property, test).bump("fresh_process_recheck_timed_out(inconclusive)")
		return nil
	}
	files, _ := filepath.Glob(filepath.Join(dir, "fail.*.json"))
	for _, f := range files {
		var r replayFile
		if raw, err := os.ReadFile(f); err == nil && json.Unmarshal(raw, &r) == nil && r.Error != "" {
			return errors.New(r.Error)
		}
	}
	if _, ok := runErr.(*exec.ExitError); !ok {
		return nil // could not be started
	}
	return fmt.Errorf("the child process failed without a verdict: %v: %s", runErr, vhClip(string(out)))
}

func (p prop[C]) classifySafe(c C) ([]string, bool) {
	if p.classify == nil {
		return nil, true
	}
	return p.classify(c)
}

func (p prop[C]) knownOf(c C, err error) string {
	if p.known == nil {
		return ""
	}
	return p.known(c, err)
}

// enumerate runs check over an explicitly enumerated finite space (no rapid).
func (p prop[C]) enumerate(t *testing.T, cases func(yield func(C) bool)) {
	test := t.Name()
	col := getCollector(p.property, test)
	defer col.flush()
	propInit()
	if os.Getenv("VERIF_REPLAY") != "" {
		p.run(t)
		return
	}
	col.Exhaustive = true
	spawned := 0
	cases(func(c C) bool {
		cj := vhMustJSON(c)
		cls, nt := p.classifySafe(c)
		col.record(cj, cls, nt)
		col.Requested++
		if err := safeCheck(p.check, c); err != nil {
			col.freeze()
			col.Exhaustive = false
			writeReplay(p.property, test, p.knownOf(c, err), cj, err)
			t.Errorf("%s: %v\ncase: %s", p.property, err, vhClip(string(cj)))
			return false
		}
		if p.fresh > 0 && spawned < maxFreshChildren && freshDue(cj, p.fresh) {
			spawned++
			col.bump("also_checked_in_a_fresh_process")
			if err := freshProcessCheck(p.property, test, cj); err != nil {
				err = fmt.Errorf("in a fresh process, where nothing ran before this case (the same case passes after other cases ran in the process): %w", err)
				col.freeze()
				col.Exhaustive = false
				writeReplay(p.property, test, p.knownOf(c, err), cj, err)
				t.Errorf("%s: %v\ncase: %s", p.property, err, vhClip(string(cj)))
				return false
			}
		}
		return true
	})
}

func vhGetenv(k, def string) string {
	if v, ok := os.LookupEnv(k); ok && v != "" {
		return v
	}
	return def
}

func tierThorough() bool { return os.Getenv("VERIF_TIER") == "thorough" }
