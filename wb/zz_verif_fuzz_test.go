//go:build verif

// Native coverage-guided fuzz targets (thorough tier only). The semantic oracles of C13, C01 and C02 run inside the
// targets; a failing input is written as an ordinary replay case before the target fails.
package snaps

import (
	"strings"
	"testing"
)

var fuzzSeeds = []string{"", "a", "a\nb", "---", "a\n---\nb", "---\n---", "/-/-/-/", "\xff", "\xfe", "caf\xe9", "caf�", "[TestA - 1]", "[TestA - 2]\nfoo", "\n", "\n\n", " ", "\t", "a\rb", "x\ty\tz", "\x00", "\v\f", strings.Repeat("x", 70000)}

func FuzzC13Diff(f *testing.F) {
	for _, a := range fuzzSeeds {
		for _, b := range []string{"", "a", a + "\n", a + " "} {
			f.Add([]byte(a), []byte(b), true)
			f.Add([]byte(a), []byte(b), false)
		}
	}
	f.Fuzz(func(t *testing.T, a, b []byte, color bool) {
		if len(a) > 1<<16 || len(b) > 1<<16 {
			return
		}
		c := diffCase{A: BS(a), B: BS(b), Color: color}
		if err := safeCheck(checkDiffCase, c); err != nil {
			writeReplay("C13", "TestC13_Random", "", vhMustJSON(c), err)
			t.Fatalf("C13: %v", err)
		}
	})
}

// FuzzC01Store: any text (minus the documented CR limitation) must record and replay silently.
func FuzzC01Store(f *testing.F) {
	for _, a := range fuzzSeeds {
		f.Add([]byte(a), byte(0), true)
		f.Add([]byte(a), byte(3), false)
	}
	f.Fuzz(func(t *testing.T, data []byte, sel byte, color bool) {
		if len(data) > 1<<17 {
			return
		}
		v := strVal(vhStripCR(string(data)))
		if hasTrailingCR(v.Text()) {
			return
		}
		c1 := c01Case{Cfgs: []CfgSpec{{Dir: "snaps", Filename: "f"}}, Initial: [][]Entry{nil},
			Tests:    []TestProg{{Name: "TestA", Calls: []Call{{API: "snap", Vals: []Val{strVal("first\n[TestA - 2]\nx")}}, {API: "snap", Vals: []Val{v}}, {API: "snap", Vals: []Val{strVal("last")}}}}},
			Run2Mode: []string{"default", "update_false", "ci", "clean"}[int(sel)%4], Run2Perm: []int{0}, Record: "env"}
		if err := safeCheck(checkC01, c1); err != nil {
			writeReplay("C01", "TestC01_Replay", "", vhMustJSON(c1), err)
			t.Fatalf("C01: %v", err)
		}
	})
}

// FuzzC02Changed: a text changed in one byte must be reported when updating is not enabled.
func FuzzC02Changed(f *testing.F) {
	for _, a := range fuzzSeeds {
		f.Add([]byte(a), byte(0), true)
		f.Add([]byte(a), byte(3), false)
	}
	f.Fuzz(func(t *testing.T, data []byte, sel byte, color bool) {
		if len(data) > 1<<17 {
			return
		}
		v := strVal(vhStripCR(string(data)))
		if hasTrailingCR(v.Text()) {
			return
		}
		// one changed byte must be reported (C02); K1 pairs excluded by construction
		s := string(v.S)
		var w string
		switch {
		case len(s) == 0:
			w = "x"
		default:
			i := int(sel) % len(s)
			b := []byte(s)
			b[i] ^= 0x20
			if b[i] == '\n' || b[i] == '\r' {
				b[i] = '#'
			}
			w = string(b)
		}
		a, bb := v.Text(), strVal(w).Text()
		if a == bb || hasTrailingCR(bb) || k1Pair("snap", a, bb) {
			return
		}
		c2 := c02Case{Cfg: CfgSpec{Dir: "snaps", Filename: "f"}, Test: "TestA", Stored: Call{API: "snap", Vals: []Val{v}}, Recv: Call{API: "snap", Vals: []Val{strVal(w)}},
			Color: color, A: BS(a), B: BS(bb)}
		if err := safeCheck(checkC02, c2); err != nil {
			writeReplay("C02", "TestC02_Changed", "", vhMustJSON(c2), err)
			t.Fatalf("C02: %v", err)
		}
	})
}
