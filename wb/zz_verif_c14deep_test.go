//go:build verif

// C14 for deeply nested documents. The depths sit around the limits that JSON tooling is known to have (1000: cycle
// detection of encoding/json's encoder, 10000: nesting limit of encoding/json's scanner, powers of two). The oracle
// does not use encoding/json: for documents made of brackets, one key and one number the canonical text is the input
// with whitespace inserted, so removing all whitespace from the stored text must give the input back.
package snaps

import (
	"fmt"
	"os"
	"path/filepath"
	"strconv"
	"strings"
	"testing"
)

type deepCase struct {
	Depth  int    `json:"depth"`
	Object bool   `json:"objects"` // {"a":{"a":...1}} instead of [[...1]]
	API    string `json:"api"`     // json | sjson
}

func (d deepCase) text() string {
	if d.Object {
		return strings.Repeat(`{"a":`, d.Depth) + "1" + strings.Repeat("}", d.Depth)
	}
	return strings.Repeat("[", d.Depth) + "1" + strings.Repeat("]", d.Depth)
}

func (d deepCase) value() any {
	var v any = 1
	for i := 0; i < d.Depth; i++ {
		if d.Object {
			v = map[string]any{"a": v}
		} else {
			v = []any{v}
		}
	}
	return v
}

func vhStripWS(s string) string {
	return strings.NewReplacer(" ", "", "\n", "", "\t", "", "\r", "").Replace(s)
}

func checkDeep(d deepCase) error {
	doc := d.text()
	stored := map[string]string{}
	for _, form := range []string{"string", "bytes", "value"} {
		root := scratchDir()
		newProcess(Mode{})
		// no indentation: with an indent the canonical text of a document nested n levels has O(n^2) bytes
		spec := CfgSpec{Dir: "snaps", Filename: "f", JSON: &JSONCfg{SortKeys: true, Indent: "", Width: 80}}
		if d.API == "sjson" {
			spec.Filename = ""
		}
		cfg := spec.build(root)
		ft := newFakeT("TestDeep")
		var in any
		switch form {
		case "string":
			in = doc
		case "bytes":
			in = []byte(doc)
		default:
			in = d.value()
		}
		if d.API == "sjson" {
			cfg.MatchStandaloneJSON(ft, in)
		} else {
			cfg.MatchJSON(ft, in)
		}
		ft.finish()
		errs, _ := ft.drain()
		var text string
		if d.API == "sjson" {
			text = vhReadFile(filepath.Join(root, spec.standalonePath("TestDeep", 1, true)))
		} else if es, err := refParse(vhReadFile(filepath.Join(root, spec.multiPath()))); err == nil && len(es) == 1 {
			text = string(es[0].Body)
		}
		os.RemoveAll(root)
		if len(errs) != 0 {
			return fmt.Errorf("a valid document nested %d levels given as %s is rejected: %q", d.Depth, form, vhClipAll(errs))
		}
		if got := vhStripWS(text); got != doc {
			return fmt.Errorf("document nested %d levels given as %s: the stored text is not the input plus whitespace: %d bytes stored (without whitespace %d), input %d bytes; starts %q", d.Depth, form, len(text), len(got), len(doc), vhClip(text))
		}
		stored[form] = text
	}
	if stored["string"] != stored["bytes"] || stored["string"] != stored["value"] {
		return fmt.Errorf("document nested %d levels: the three input forms store different texts (lengths %d / %d / %d)", d.Depth, len(stored["string"]), len(stored["bytes"]), len(stored["value"]))
	}
	return nil
}

func TestC14_DeepNesting(t *testing.T) {
	nshards, _ := strconv.Atoi(vhGetenv("VERIF_NSHARDS", "1"))
	shard, _ := strconv.Atoi(vhGetenv("VERIF_SHARD", "0"))
	depths := []int{1, 2, 64, 999, 1000, 1001, 4096, 9999, 10000, 10001, 10002}
	// the pretty printer needs time quadratic in the depth (arrays: 5 s at 10001 levels, 20 s at 20000; objects a tenth
	// of that): arrays stay below 4097 levels in the quick tier and below 10003 in the thorough tier
	maxArray := 4096
	if tierThorough() {
		depths = append(depths, 16384, 32768, 65536)
		maxArray = 10002
	}
	p := prop[deepCase]{property: "C14", check: checkDeep, classify: func(d deepCase) ([]string, bool) {
		cls := []string{"api_" + d.API}
		if d.Depth > 1000 {
			cls = append(cls, "deeper_than_1000")
		}
		if d.Depth > 10000 {
			cls = append(cls, "deeper_than_10000")
		}
		return cls, d.Depth >= 64
	}}
	p.enumerate(t, func(yield func(deepCase) bool) {
		i := 0
		for _, depth := range depths {
			for _, obj := range []bool{false, true} {
				if !obj && depth > maxArray {
					continue
				}
				for _, api := range []string{"json", "sjson"} {
					i++
					if i%nshards != shard {
						continue
					}
					if !yield(deepCase{Depth: depth, Object: obj, API: api}) {
						return
					}
				}
			}
		}
	})
}
