//go:build verif

// C10 Clean rewrites preserve content; sorting is an idempotent permutation.
// Also home of the Snapshot Summary parser used by C07/C09/C20.
package snaps

import (
	"fmt"
	"os"
	"path/filepath"
	"sort"
	"strconv"
	"strings"
	"testing"

	"pgregory.net/rapid"
)

// ---- Snapshot Summary (NO_COLOR) parser -------------------------------------------------------------

type summaryInfo struct {
	Present                                 bool
	Passed, Failed, Added, Updated, Skipped int
	Files, Tests                            []string
	FileAction, TestAction                  string // obsolete | removed
	Hint                                    bool
	Raw                                     string
}

func parseSummary(out string) (summaryInfo, error) {
	s := summaryInfo{Raw: out}
	if strings.TrimSpace(out) == "" {
		return s, nil
	}
	if !strings.Contains(out, "Snapshot Summary") {
		return s, fmt.Errorf("output is not a summary: %q", vhClip(out))
	}
	s.Present = true
	lines := strings.Split(out, "\n")
	section := ""
	for _, l := range lines {
		switch {
		case strings.HasPrefix(l, "› "):
			f := strings.Fields(l[len("› "):])
			// "<n> snapshot file(s)|test(s) obsolete|removed"
			if len(f) != 4 || f[1] != "snapshot" {
				return s, fmt.Errorf("unexpected list header %q", l)
			}
			n, err := strconv.Atoi(f[0])
			if err != nil {
				return s, fmt.Errorf("unexpected list header %q", l)
			}
			switch strings.TrimSuffix(f[2], "s") {
			case "file":
				section, s.FileAction = "files", f[3]
			case "test":
				section, s.TestAction = "tests", f[3]
			default:
				return s, fmt.Errorf("unexpected list header %q", l)
			}
			_ = n
		case strings.HasPrefix(l, "  ↳") && strings.Contains(l, "• "):
			item := l[strings.Index(l, "• ")+len("• "):]
			switch section {
			case "files":
				s.Files = append(s.Files, item)
			case "tests":
				s.Tests = append(s.Tests, item)
			default:
				return s, fmt.Errorf("list item outside a list: %q", l)
			}
		case strings.HasPrefix(l, "To remove "):
			s.Hint = true
		default:
			for _, ev := range []struct {
				sym, verb string
				dst       *int
			}{{"✓ ", "passed", &s.Passed}, {"✕ ", "failed", &s.Failed}, {"✎ ", "added", &s.Added}, {"✎ ", "updated", &s.Updated}, {"⟳ ", "skipped", &s.Skipped}} {
				if strings.HasPrefix(l, ev.sym) && strings.HasSuffix(l, " "+ev.verb) {
					f := strings.Fields(l[len(ev.sym):])
					if len(f) == 3 {
						if n, err := strconv.Atoi(f[0]); err == nil {
							*ev.dst = n
						}
					}
				}
			}
		}
	}
	// the list headers' counts must equal the number of items listed
	for _, l := range lines {
		if strings.HasPrefix(l, "› ") {
			f := strings.Fields(l[len("› "):])
			n, _ := strconv.Atoi(f[0])
			want := len(s.Files)
			if strings.HasPrefix(f[2], "test") {
				want = len(s.Tests)
			}
			if n != want {
				return s, fmt.Errorf("list header %q announces %d items, %d listed", l, n, want)
			}
		}
	}
	return s, nil
}

// ---- C10 ---------------------------------------------------------------------------------------------

type cleanEntry struct {
	Test string `json:"test"`
	Ord  int    `json:"ord"`
	Val  Val    `json:"val"` // the body is refEscape(formatted value)
	Live bool   `json:"live"`
	// Parked: the entry belongs to a test that calls snaps.Skip before its first Match* call in this process: neither
	// replayed nor stale - it stays, in every mode, through every rewrite
	Parked bool `json:"test_skipped_in_this_process,omitempty"`
}

type cleanFile struct {
	Ghost   bool         `json:"ghost,omitempty"` // the file is addressed only by a call that fails (missing snapshot, Update(false)): registered, but every entry is stale
	Cfg     CfgSpec      `json:"cfg"`
	Entries []cleanEntry `json:"entries"` // in file order
	Perm2   []int        `json:"perm2"`   // a second initial order of the same entries (metamorphic relation)
	// Slack: extra blank lines in front of the entry at each position (and behind the last one): what a hand-resolved merge
	// or an editor leaves; the same entries for every reader of the format
	Slack []int `json:"extra_blank_lines,omitempty"`
}

type c10Case struct {
	Files []cleanFile `json:"files"`
	Mode  Mode        `json:"mode"`
	Sort  bool        `json:"sort"`
	Count int         `json:"count"`
	// ForeignTmp: Clean runs with TMPDIR on another file system than the snapshot directory
	ForeignTmp bool `json:"tmpdir_on_another_file_system,omitempty"`
}

func (e cleanEntry) id() string   { return entryID(e.Test, e.Ord) }
func (e cleanEntry) body() string { return refEscape(e.Val.Text()) }

// totalOrderIDs: no digit run with a leading zero and none longer than 18 digits (so the natural order is total).
func totalOrderIDs(ids []string) bool {
	for _, id := range ids {
		for i := 0; i < len(id); {
			if !vhIsDigit(id[i]) {
				i++
				continue
			}
			j := i
			for j < len(id) && vhIsDigit(id[j]) {
				j++
			}
			if (j-i > 1 && id[i] == '0') || j-i > 18 {
				return false
			}
			i = j
		}
	}
	return true
}

// genCleanFile: per test, live ordinals 1..n (contiguous, as real calls produce) and stale ones beyond.
func genCleanFile(t *rapid.T, cfg CfgSpec, names []string, o textOpts, col *collector, maxEntries int, staleOK bool) cleanFile {
	f := cleanFile{Cfg: cfg}
	var es []cleanEntry
	for _, name := range names {
		if len(es) >= maxEntries {
			break
		}
		if staleOK && len(es) > 0 && rapid.IntRange(0, 5).Draw(t, "parked") == 0 {
			// (not the first test of the file: a skipped test that is the only owner of a file is C08's K2; and no other
			// test of the pool is a sub test of this one: a skip protects the whole subtree)
			subtree := false
			for _, other := range names {
				if strings.HasPrefix(other, name+"/") {
					subtree = true
				}
			}
			hasLive := false
			for _, e := range es {
				hasLive = hasLive || e.Live
			}
			if !subtree && hasLive {
				for k := rapid.IntRange(1, 3).Draw(t, "nparked"); k >= 1; k-- {
					es = append(es, cleanEntry{Test: name, Ord: k, Val: genVal(t, o, col), Parked: true})
				}
				continue
			}
		}
		live := rapid.IntRange(0, 4).Draw(t, "nlive")
		if rapid.IntRange(0, 6).Draw(t, "manylive") == 0 {
			live = rapid.IntRange(9, 12).Draw(t, "nlive10")
		}
		for k := 1; k <= live; k++ {
			es = append(es, cleanEntry{Test: name, Ord: k, Val: genVal(t, o, col), Live: true})
		}
		if staleOK {
			for i := rapid.IntRange(0, 2).Draw(t, "nstale"); i > 0; i-- {
				ord := live + rapid.IntRange(1, 12).Draw(t, "staleord")
				dup := false
				for _, e := range es {
					if e.Test == name && e.Ord == ord {
						dup = true
					}
				}
				if !dup {
					es = append(es, cleanEntry{Test: name, Ord: ord, Val: genVal(t, o, col)})
				}
			}
		}
	}
	perm := rapid.Permutation(vhIndices(len(es))).Draw(t, "order")
	if rapid.IntRange(0, 3).Draw(t, "keeporder") == 0 {
		perm = vhIndices(len(es))
	}
	for _, p := range perm {
		f.Entries = append(f.Entries, es[p])
	}
	f.Perm2 = rapid.Permutation(vhIndices(len(es))).Draw(t, "order2")
	if rapid.IntRange(0, 3).Draw(t, "slack") == 0 {
		f.Slack = rapid.SliceOfN(rapid.IntRange(0, 3), len(es)+1, len(es)+1).Draw(t, "slacklines")
	}
	return f
}

func genCleanMode(t *rapid.T) Mode {
	switch rapid.IntRange(0, 6).Draw(t, "cleanmode") {
	case 0, 1:
		return Mode{}
	case 2, 3:
		return Mode{Update: "clean"}
	case 4:
		return Mode{Update: "true"}
	case 5:
		return Mode{CI: true, Update: rapid.SampledFrom([]string{"", "clean", "true"}).Draw(t, "ciupd")}
	default:
		return Mode{Update: rapid.SampledFrom([]string{"1", "false", "CLEAN"}).Draw(t, "other")}
	}
}

func genC10(t *rapid.T) c10Case {
	col := getCollector("C10", "TestC10_CleanRewrite")
	nfiles := rapid.SampledFrom([]int{1, 1, 2}).Draw(t, "nfiles")
	ntests := rapid.IntRange(1, 5).Draw(t, "ntests")
	names := genNamePool(t, ntests)
	o := textOpts{escapeToken: true, headerLike: true, names: names, maxLines: 4}
	c := c10Case{Mode: genCleanMode(t), Sort: rapid.IntRange(0, 2).Draw(t, "sort") > 0, Count: 1, ForeignTmp: rapid.IntRange(0, 3).Draw(t, "foreigntmp") == 0}
	for i := 0; i < nfiles; i++ {
		cfg := CfgSpec{Dir: "snaps", Filename: []string{"f", "g"}[i]}
		switch rapid.IntRange(0, 5).Draw(t, "nameshape") {
		case 0: // `.snap` occurs inside the name, in front of the real one
			cfg.Filename = []string{"v1.snapshots", "api.snapshot_golden"}[i]
		case 1: // an Ext is appended as it is: no dot of its own
			cfg.Ext = rapid.SampledFrom([]string{"_golden", "-linux", "json"}).Draw(t, "dotlessext")
		case 2:
			cfg.Ext = rapid.SampledFrom([]string{".txt", ".snap", ".orig"}).Draw(t, "ext")
		}
		c.Files = append(c.Files, genCleanFile(t, cfg, names, o, col, 25, true))
	}
	// a skip protects the test (and its sub tests) in EVERY file: a test is parked only if none of its entries anywhere is
	// meant to be replayed or stale
	for fi := range c.Files {
		for ei := range c.Files[fi].Entries {
			e := c.Files[fi].Entries[ei]
			if !e.Parked {
				continue
			}
			for fj := range c.Files {
				for _, o := range c.Files[fj].Entries {
					if !o.Parked && (o.Test == e.Test || strings.HasPrefix(o.Test, e.Test+"/")) {
						c.Files[fi].Entries[ei].Parked = false
					}
				}
			}
		}
	}
	for fi := range c.Files {
		// (all or none of a test's entries in a file)
		un := map[string]bool{}
		for _, e := range c.Files[fi].Entries {
			if !e.Parked {
				un[e.Test] = true
			}
		}
		for ei := range c.Files[fi].Entries {
			if un[c.Files[fi].Entries[ei].Test] {
				c.Files[fi].Entries[ei].Parked = false
			}
		}
	}
	if nfiles == 2 && rapid.IntRange(0, 3).Draw(t, "ghost") == 0 {
		for i := range c.Files[0].Entries {
			c.Files[0].Entries[i].Live = false
		}
		c.Files[0].Ghost = true
	}
	return c
}

func (f cleanFile) render(order []int) string {
	var sb strings.Builder
	for pos, i := range order {
		e := f.Entries[i]
		if pos < len(f.Slack) {
			sb.WriteString(strings.Repeat("\n", f.Slack[pos]))
		}
		sb.WriteString(refRender([]Entry{{ID: BS(e.id()), Body: BS(e.body())}}))
	}
	if len(f.Slack) > len(order) && len(order) > 0 {
		sb.WriteString(strings.Repeat("\n", f.Slack[len(order)]))
	}
	return sb.String()
}

// runCleanProcess: a process that replays every live entry (all must pass) and then calls Clean.
func runCleanProcess(root string, files []cleanFile, mode Mode, count int, sortOpt bool) (string, error) {
	newProcess(mode)
	type tk struct{ fi int }
	for iter := 0; iter < count; iter++ {
		for fi, f := range files {
			cfg := f.Cfg.build(root)
			byTest := map[string][]cleanEntry{}
			var order []string
			for _, e := range f.Entries {
				if e.Live {
					if _, ok := byTest[e.Test]; !ok {
						order = append(order, e.Test)
					}
					byTest[e.Test] = append(byTest[e.Test], e)
				}
			}
			if f.Ghost {
				gs := f.Cfg
				gs.Update = vhBoolp(false)
				ft := newFakeT("TestGhostXyz")
				r := Call{API: "snap", Vals: []Val{strVal("never stored")}}.invoke(gs.build(root), ft)
				ft.finish()
				if out, _ := outcomeOf(r); out != oFailed {
					return "", fmt.Errorf("ghost call (missing snapshot, Update(false)) ended as %q", out)
				}
			}
			parked := map[string]bool{}
			for _, e := range f.Entries {
				if e.Parked && !parked[e.Test] {
					parked[e.Test] = true
					ft := newFakeT(e.Test)
					callSkip(func() { Skip(ft, "parked in this run") })
					ft.drain()
					ft.finish()
				}
			}
			sort.Strings(order)
			for _, name := range order {
				es := byTest[name]
				sort.Slice(es, func(a, b int) bool { return es[a].Ord < es[b].Ord })
				ft := newFakeT(name)
				for _, e := range es {
					r := Call{API: "snap", Vals: []Val{e.Val}}.invoke(cfg, ft)
					if out, err := outcomeOf(r); err != nil || out != oPassed {
						return "", fmt.Errorf("file %d: replaying live entry %q before Clean: outcome %q err %v errors=%q", fi, e.id(), out, err, vhClipAll(r.Errors))
					}
				}
				ft.finish()
			}
		}
	}
	var opts []CleanOpts
	if sortOpt {
		opts = append(opts, CleanOpts{Sort: true})
	}
	return runClean("", count, opts...), nil
}

func checkC10(c c10Case) error {
	root := scratchDir()
	defer os.RemoveAll(root)
	deletes := !c.Mode.CI && (c.Mode.Update == "true" || c.Mode.Update == "clean")
	sorts := c.Sort && !c.Mode.CI

	paths := make([]string, len(c.Files))
	for i, f := range c.Files {
		paths[i] = filepath.Join(root, f.Cfg.multiPath())
		os.MkdirAll(filepath.Dir(paths[i]), 0o755)
		os.WriteFile(paths[i], []byte(f.render(vhIndices(len(f.Entries)))), 0o644)
	}
	ageDir(root)
	before := snapDir(root)
	foreignTmp = c.ForeignTmp
	_, err := runCleanProcess(root, c.Files, c.Mode, c.Count, c.Sort)
	foreignTmp = false
	if err != nil {
		return err
	}
	after := snapDir(root)

	results := make([]string, len(c.Files))
	addressed := make([]bool, len(c.Files))
	dirVisited := false
	for i, f := range c.Files {
		if f.Ghost {
			addressed[i] = true
			dirVisited = true
		}
		for _, e := range f.Entries {
			if e.Live {
				addressed[i] = true
				dirVisited = true
			}
		}
	}
	for i, f := range c.Files {
		rel := f.Cfg.multiPath()
		data := after[rel].Data
		results[i] = data
		if !addressed[i] {
			// a file no call addressed: an obsolete *file* (removed in clean mode if its directory was visited), never rewritten
			_, exists := after[rel]
			switch {
			case deletes && dirVisited:
				if exists {
					return fmt.Errorf("file %s was not addressed and its directory was visited in clean mode, but it still exists", rel)
				}
			case !exists:
				return fmt.Errorf("file %s was not addressed; mode %+v does not allow deleting but it is gone", rel, c.Mode)
			case after[rel].Data != before[rel].Data || !after[rel].Mtime.Equal(before[rel].Mtime):
				return fmt.Errorf("file %s was not addressed by any call but Clean wrote it", rel)
			}
			continue
		}
		got, err := refParse(data)
		if err != nil {
			return fmt.Errorf("file %s after Clean is not well formed: %v; content %q", rel, err, vhClip(data))
		}
		// survivors
		var want []Entry
		hasStale := false
		var ids []string
		for _, e := range f.Entries {
			if !e.Live && !e.Parked {
				hasStale = true
				if deletes {
					continue
				}
			}
			want = append(want, Entry{ID: BS(e.id()), Body: BS(e.body())})
			ids = append(ids, e.id())
		}
		if len(f.Entries) > 0 || data != "" {
			if err := sameMultiset(want, got); err != nil {
				return fmt.Errorf("file %s (mode %+v sort=%v): surviving entries are not preserved: %v\nbefore: %s\nafter:  %s", rel, c.Mode, c.Sort, err, describeEntries(renderedEntries(f)), describeEntries(got))
			}
		}
		total := totalOrderIDs(ids)
		if sorts && total {
			for k := 1; k < len(got); k++ {
				if vhNaturalCmp(string(got[k-1].ID), string(got[k].ID)) > 0 {
					return fmt.Errorf("file %s: sort requested but %q comes before %q", rel, got[k-1].ID, got[k].ID)
				}
			}
		}
		if !sorts {
			// without sorting the surviving entries keep their relative order
			if !entriesEqual(want, got) {
				return fmt.Errorf("file %s: no sorting requested but surviving entries moved: want %s | got %s", rel, describeEntries(want), describeEntries(got))
			}
		}
		// no write when neither pruning nor sorting is needed
		alreadySorted := true
		all := renderedEntries(f)
		for k := 1; k < len(all); k++ {
			if vhNaturalCmp(string(all[k-1].ID), string(all[k].ID)) > 0 {
				alreadySorted = false
			}
		}
		allIDs := make([]string, len(all))
		for k := range all {
			allIDs[k] = string(all[k].ID)
		}
		needPrune := deletes && hasStale
		needSort := sorts && !alreadySorted
		if !needPrune && !needSort && (!sorts || totalOrderIDs(allIDs)) {
			if !after[rel].Mtime.Equal(before[rel].Mtime) || after[rel].Data != before[rel].Data {
				return fmt.Errorf("file %s needs neither pruning nor sorting (mode %+v sort=%v) but Clean wrote it", rel, c.Mode, c.Sort)
			}
		}
	}

	// running Clean again changes nothing (content; and no write at all when the id order is total)
	survivors := make([]cleanFile, len(c.Files))
	for i, f := range c.Files {
		survivors[i] = cleanFile{Cfg: f.Cfg, Ghost: f.Ghost}
		for _, e := range f.Entries {
			if (e.Live || e.Parked || !deletes) && !(deletes && dirVisited && !addressed[i]) {
				survivors[i].Entries = append(survivors[i].Entries, e)
			}
		}
	}
	ageDir(root)
	before2 := snapDir(root)
	if _, err := runCleanProcess(root, survivors, c.Mode, c.Count, c.Sort); err != nil {
		return fmt.Errorf("second run: %v", err)
	}
	after2 := snapDir(root)
	for i, f := range c.Files {
		rel := f.Cfg.multiPath()
		var ids []string
		for _, e := range f.Entries {
			ids = append(ids, e.id())
		}
		if after2[rel].Data != before2[rel].Data && totalOrderIDs(ids) {
			return fmt.Errorf("file %s: a second Clean changed the content again: %q -> %q", rel, vhClip(before2[rel].Data), vhClip(after2[rel].Data))
		}
		if !after2[rel].Mtime.Equal(before2[rel].Mtime) && totalOrderIDs(ids) {
			return fmt.Errorf("file %s: a second Clean wrote the file again", rel)
		}
		g1, _ := refParse(before2[rel].Data)
		g2, err := refParse(after2[rel].Data)
		if err != nil {
			return fmt.Errorf("file %s after the second Clean is not well formed: %v", rel, err)
		}
		if err := sameMultiset(g1, g2); err != nil {
			return fmt.Errorf("file %s: a second Clean changed the entries: %v", rel, err)
		}
		_ = i
	}

	// metamorphic: another initial order of the same entries sorts to the same bytes (total orders only)
	if sorts {
		root2 := scratchDir()
		defer os.RemoveAll(root2)
		for _, f := range c.Files {
			p := filepath.Join(root2, f.Cfg.multiPath())
			os.MkdirAll(filepath.Dir(p), 0o755)
			os.WriteFile(p, []byte(f.render(f.Perm2)), 0o644)
		}
		if _, err := runCleanProcess(root2, c.Files, c.Mode, c.Count, c.Sort); err != nil {
			return fmt.Errorf("permuted run: %v", err)
		}
		for i, f := range c.Files {
			var ids []string
			for _, e := range f.Entries {
				ids = append(ids, e.id())
			}
			if !totalOrderIDs(ids) || !addressed[i] {
				continue
			}
			got := vhReadFile(filepath.Join(root2, f.Cfg.multiPath()))
			same := got == results[i]
			if len(f.Slack) > 0 {
				// a file that was in order already is not rewritten and keeps its blank lines: the ENTRIES are what must agree
				e1, err1 := refParse(results[i])
				e2, err2 := refParse(got)
				same = err1 == nil && err2 == nil && refRender(e1) == refRender(e2)
			}
			if !same {
				return fmt.Errorf("file %s: sorted result depends on the initial order:\norder 1 -> %q\norder 2 -> %q", f.Cfg.multiPath(), vhClip(results[i]), vhClip(got))
			}
		}
	}
	return nil
}

func renderedEntries(f cleanFile) []Entry {
	var es []Entry
	for _, e := range f.Entries {
		es = append(es, Entry{ID: BS(e.id()), Body: BS(e.body())})
	}
	return es
}

func sameMultiset(want, got []Entry) error {
	count := map[Entry]int{}
	for _, e := range want {
		count[e]++
	}
	for _, e := range got {
		count[e]--
	}
	var missing, extra []string
	for e, n := range count {
		if n > 0 {
			missing = append(missing, fmt.Sprintf("[%s]=%q", e.ID, vhClip(string(e.Body))))
		}
		if n < 0 {
			extra = append(extra, fmt.Sprintf("[%s]=%q", e.ID, vhClip(string(e.Body))))
		}
	}
	sort.Strings(missing)
	sort.Strings(extra)
	if len(missing)+len(extra) > 0 {
		return fmt.Errorf("dropped or altered: %v; unexpected: %v", missing, extra)
	}
	return nil
}

func classifyC10(c c10Case) ([]string, bool) {
	var cls []string
	deletes := !c.Mode.CI && (c.Mode.Update == "true" || c.Mode.Update == "clean")
	sorts := c.Sort && !c.Mode.CI
	nt := false
	for _, f := range c.Files {
		all := renderedEntries(f)
		unsorted := false
		var ids []string
		for k := range all {
			ids = append(ids, string(all[k].ID))
			if k > 0 && vhNaturalCmp(string(all[k-1].ID), string(all[k].ID)) > 0 {
				unsorted = true
			}
		}
		stale := false
		special := false
		for _, e := range f.Entries {
			if !e.Live && !e.Parked {
				stale = true
			}
			if e.Parked {
				cls = append(cls, "entries_of_a_test_skipped_in_this_process")
			}
			for _, ft := range textFeatures(e.Val.Text()) {
				if ft == "blank_line" || ft == "terminator_or_escape_line" || ft == "header_like_line" || ft == "edge_newline" {
					special = true
				}
			}
		}
		if !totalOrderIDs(ids) {
			cls = append(cls, "tie_domain_ids")
		} else {
			cls = append(cls, "total_order_ids")
		}
		if unsorted && sorts {
			cls = append(cls, "sort_of_unsorted_file")
		}
		if stale && deletes {
			cls = append(cls, "prune")
		}
		if stale && sorts && !deletes && unsorted {
			cls = append(cls, "sort_with_stale_no_clean")
		}
		if special {
			cls = append(cls, "special_body_lines")
		}
		if len(f.Entries) >= 3 && ((unsorted && sorts) || (stale && deletes) || special) {
			nt = true
		}
	}
	if len(c.Files) > 1 {
		cls = append(cls, "two_files")
	}
	if c.Mode.CI {
		cls = append(cls, "ci")
	}
	return vhUniq(cls), nt
}

func TestC10_CleanRewrite(t *testing.T) {
	prop[c10Case]{property: "C10", gen: genC10, check: checkC10, classify: classifyC10}.run(t)
}

// ---- many ordinals: files whose entry count crosses a digit boundary (9/10, 99/100, 999/1000) --------------------

type manyOrdCase struct {
	N     int  `json:"live_ordinals"`  // one test with calls 1..N
	Stale int  `json:"stale_ordinals"` // plus entries N+1..N+Stale that nobody addresses
	Clean bool `json:"clean_mode"`     // UPDATE_SNAPS=clean (stale entries are removed) or default (reported only)
	Step  int  `json:"shuffle_step"`   // initial order: i -> (i*Step) mod (N+Stale), Step coprime to N+Stale
}

func (m manyOrdCase) c10() c10Case {
	total := m.N + m.Stale
	f := cleanFile{Cfg: CfgSpec{Dir: "snaps", Filename: "f"}}
	for i := 0; i < total; i++ {
		k := (i*m.Step)%total + 1
		f.Entries = append(f.Entries, cleanEntry{Test: "TestMany", Ord: k, Val: strVal("value of call " + strconv.Itoa(k)), Live: k <= m.N})
	}
	for i := total - 1; i >= 0; i-- {
		f.Perm2 = append(f.Perm2, i)
	}
	c := c10Case{Files: []cleanFile{f}, Sort: true, Count: 1}
	if m.Clean {
		c.Mode = Mode{Update: "clean"}
	}
	return c
}

func vhGcd(a, b int) int {
	for b != 0 {
		a, b = b, a%b
	}
	return a
}

func TestC10_ManyOrdinals(t *testing.T) {
	nshards, _ := strconv.Atoi(vhGetenv("VERIF_NSHARDS", "1"))
	shard, _ := strconv.Atoi(vhGetenv("VERIF_SHARD", "0"))
	ns := []int{9, 10, 11, 99, 100, 101}
	if tierThorough() {
		ns = append(ns, 999, 1000, 1001)
	}
	p := prop[manyOrdCase]{property: "C10", check: func(m manyOrdCase) error { return checkC10(m.c10()) },
		classify: func(m manyOrdCase) ([]string, bool) {
			return []string{fmt.Sprintf("ordinals_%d", m.N)}, m.N >= 10
		}}
	p.enumerate(t, func(yield func(manyOrdCase) bool) {
		i := 0
		for _, n := range ns {
			for _, stale := range []int{0, 2} {
				for _, clean := range []bool{false, true} {
					i++
					if i%nshards != shard {
						continue
					}
					step := 7
					for vhGcd(step, n+stale) != 1 {
						step++
					}
					if !yield(manyOrdCase{N: n, Stale: stale, Clean: clean, Step: step}) {
						return
					}
				}
			}
		}
	})
}
