//go:build verif

// Texts whose number of DISTINCT lines sits on the numeric boundaries that matter to code which maps lines to
// integers, runes or 16-bit units (0x7FFF/0x8000, the surrogate range 0xD800-0xDFFF, 0xFFFD, 0xFFFF/0x10000):
// C13 (the report shows the true edit) and C02 (a changed value fails) for big exports.
// The case is a descriptor; the texts are derived from it, so that replay files stay small.
package snaps

import (
	"fmt"
	"strconv"
	"strings"
	"testing"
)

type hugeCase struct {
	Lines   int   `json:"distinct_lines"`       // the stored text has that many distinct lines "line <i>"
	Changed []int `json:"changed_line_indexes"` // received: these lines read "changed <i>" ...
	Swap    bool  `json:"swap_instead"`         // ... or, with Swap, the two lines at Changed[0] and Changed[1] trade places
	Color   bool  `json:"color"`
}

func (h hugeCase) texts() (string, string) {
	al := make([]string, h.Lines)
	for i := range al {
		al[i] = "line " + strconv.Itoa(i)
	}
	bl := append([]string{}, al...)
	if h.Swap {
		bl[h.Changed[0]], bl[h.Changed[1]] = bl[h.Changed[1]], bl[h.Changed[0]]
	} else {
		for _, i := range h.Changed {
			bl[i] = "changed " + strconv.Itoa(i)
		}
	}
	return strings.Join(al, "\n"), strings.Join(bl, "\n")
}

var hugeBoundaries = []int{0x7FFF, 0x8001, 0xD7FF, 0xD800, 0xD801, 0xD802, 0xDBFF, 0xDFFF, 0xE001, 0xFFFD, 0xFFFE, 0xFFFF, 0x10000, 0x10001}

func hugeCases(thorough bool) []hugeCase {
	var out []hugeCase
	for k, n := range hugeBoundaries {
		color := k%2 == 1
		out = append(out, hugeCase{Lines: n, Changed: []int{n - 1}, Color: color})
		if thorough || k%3 == 0 {
			out = append(out,
				hugeCase{Lines: n, Changed: []int{n - 2, n - 1}, Color: !color},
				hugeCase{Lines: n, Changed: []int{n - 2, n - 1}, Swap: true, Color: color},
				hugeCase{Lines: n, Changed: []int{0}, Color: !color},
				hugeCase{Lines: n, Changed: []int{n / 2, n - 1}, Color: color})
		}
	}
	return out
}

func enumerateHuge(t *testing.T, p prop[hugeCase]) {
	nshards, _ := strconv.Atoi(getenv("VERIF_NSHARDS", "1"))
	shard, _ := strconv.Atoi(getenv("VERIF_SHARD", "0"))
	p.classify = func(h hugeCase) ([]string, bool) {
		cls := []string{fmt.Sprintf("distinct_lines_0x%X", h.Lines)}
		if h.Swap {
			cls = append(cls, "two_lines_swapped")
		}
		return cls, true
	}
	p.enumerate(t, func(yield func(hugeCase) bool) {
		for i, h := range hugeCases(tierThorough()) {
			if i%nshards != shard {
				continue
			}
			if !yield(h) {
				return
			}
		}
	})
}

func TestC13_HugeLineCounts(t *testing.T) {
	enumerateHuge(t, prop[hugeCase]{property: "C13", check: func(h hugeCase) error {
		a, b := h.texts()
		return checkDiffCase(diffCase{A: BS(a), B: BS(b), Color: h.Color})
	}})
}

func TestC02_HugeLineCounts(t *testing.T) {
	enumerateHuge(t, prop[hugeCase]{property: "C02", check: func(h hugeCase) error {
		a, b := h.texts()
		api := "snap"
		if h.Lines%2 == 0 {
			api = "ssnap"
		}
		c := c02Case{Cfg: CfgSpec{Dir: "snaps", Filename: "f"}, Test: "TestHuge", Color: h.Color,
			Stored: Call{API: api, Vals: []Val{strVal(a)}}, Recv: Call{API: api, Vals: []Val{strVal(b)}}, A: BS(a[:40]), B: BS(b[:40])}
		if api == "ssnap" {
			c.Cfg.Filename = ""
		}
		return checkC02(c)
	}})
}
