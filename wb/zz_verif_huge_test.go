//go:build verif

// Texts whose number of DISTINCT lines sits on the numeric boundaries that matter to code which maps lines to
// integers, runes or 16-bit units (0x7FFF/0x8000, the surrogate range 0xD800-0xDFFF, 0xFFFD, 0xFFFF/0x10000):
// C13 (the report shows the true edit) and C02 (a changed value fails) for big exports.
// The case is a descriptor; the texts are derived from it, so that replay files stay small.
package snaps

import (
	"fmt"
	"os"
	"strconv"
	"strings"
	"testing"
)

type hugeCase struct {
	Lines   int   `json:"distinct_lines"`       // the stored text has that many distinct lines "line <i>"
	Changed []int `json:"changed_line_indexes"` // received: these lines read "changed <i>" ...
	Swap    bool  `json:"swap_instead"`         // ... or, with Swap, the two lines at Changed[0] and Changed[1] trade places
	Color   bool  `json:"color"`
}

func (h hugeCase) texts() (string, string) {
	al := make([]string, h.Lines)
	for i := range al {
		al[i] = "line " + strconv.Itoa(i)
	}
	bl := append([]string{}, al...)
	if h.Swap {
		bl[h.Changed[0]], bl[h.Changed[1]] = bl[h.Changed[1]], bl[h.Changed[0]]
	} else {
		for _, i := range h.Changed {
			bl[i] = "changed " + strconv.Itoa(i)
		}
	}
	return strings.Join(al, "\n"), strings.Join(bl, "\n")
}

var hugeBoundaries = []int{0x7FFF, 0x8001, 0xD7FF, 0xD800, 0xD801, 0xD802, 0xDBFF, 0xDFFF, 0xE001, 0xFFFD, 0xFFFE, 0xFFFF, 0x10000, 0x10001}

func hugeCases(thorough bool) []hugeCase {
	var out []hugeCase
	// many separate changes (every tenth record of an export differs): 21, 30, 64 hunks
	for k, n := range []int{21, 30, 64} {
		var changed []int
		for i := 0; i < n; i++ {
			changed = append(changed, 5+10*i)
		}
		out = append(out, hugeCase{Lines: 10*n + 10, Changed: changed, Color: k%2 == 0})
	}
	for k, n := range hugeBoundaries {
		color := k%2 == 1
		out = append(out, hugeCase{Lines: n, Changed: []int{n - 1}, Color: color})
		if thorough || k%3 == 0 {
			out = append(out,
				hugeCase{Lines: n, Changed: []int{n - 2, n - 1}, Color: !color},
				hugeCase{Lines: n, Changed: []int{n - 2, n - 1}, Swap: true, Color: color},
				hugeCase{Lines: n, Changed: []int{0}, Color: !color},
				hugeCase{Lines: n, Changed: []int{n / 2, n - 1}, Color: color})
		}
	}
	return out
}

func enumerateHuge(t *testing.T, p prop[hugeCase]) {
	nshards, _ := strconv.Atoi(vhGetenv("VERIF_NSHARDS", "1"))
	shard, _ := strconv.Atoi(vhGetenv("VERIF_SHARD", "0"))
	p.classify = func(h hugeCase) ([]string, bool) {
		cls := []string{fmt.Sprintf("distinct_lines_0x%X", h.Lines)}
		if h.Swap {
			cls = append(cls, "two_lines_swapped")
		}
		return cls, true
	}
	p.enumerate(t, func(yield func(hugeCase) bool) {
		for i, h := range hugeCases(tierThorough()) {
			if i%nshards != shard {
				continue
			}
			if !yield(h) {
				return
			}
		}
	})
}

func TestC13_HugeLineCounts(t *testing.T) {
	enumerateHuge(t, prop[hugeCase]{property: "C13", check: func(h hugeCase) error {
		a, b := h.texts()
		return checkDiffCase(diffCase{A: BS(a), B: BS(b), Color: h.Color})
	}})
}

func TestC02_HugeLineCounts(t *testing.T) {
	enumerateHuge(t, prop[hugeCase]{property: "C02", check: func(h hugeCase) error {
		a, b := h.texts()
		api := "snap"
		if h.Lines%2 == 0 {
			api = "ssnap"
		}
		c := c02Case{Cfg: CfgSpec{Dir: "snaps", Filename: "f"}, Test: "TestHuge", Color: h.Color,
			Stored: Call{API: api, Vals: []Val{strVal(a)}}, Recv: Call{API: api, Vals: []Val{strVal(b)}}, A: BS(a[:40]), B: BS(b[:40])}
		if api == "ssnap" {
			c.Cfg.Filename = ""
		}
		return checkC02(c)
	}})
}

// ---- C16 for big documents: a report / export of 10 000 - 33 000 rows (one line per row in the stored layout) with one
// masked member; the variants differ at the masked member only, or at ONE row near the start, in the middle, just behind
// row 10 000, or at the very end.

type hugeDocCase struct {
	Kind    string `json:"kind"` // json | sjson | yaml
	Rows    int    `json:"rows"`
	DiffRow int    `json:"row_that_differs_in_the_unmasked_variant"`
}

func (h hugeDocCase) doc(stamp string, changed int) string {
	var sb strings.Builder
	if h.Kind == "yaml" {
		sb.WriteString("generatedAt: " + stamp + "\nrows:\n")
		for i := 0; i < h.Rows; i++ {
			if i == changed {
				sb.WriteString("  - changed\n")
				continue
			}
			sb.WriteString("  - r" + strconv.Itoa(i) + "\n")
		}
		return sb.String()
	}
	sb.WriteString(`{"generatedAt":"` + stamp + `","rows":[`)
	for i := 0; i < h.Rows; i++ {
		if i > 0 {
			sb.WriteByte(',')
		}
		if i == changed {
			sb.WriteString(`"changed"`)
			continue
		}
		sb.WriteString(strconv.Itoa(i))
	}
	sb.WriteString("]}")
	return sb.String()
}

func checkHugeDoc(h hugeDocCase) error {
	root := scratchDir()
	defer os.RemoveAll(root)
	path := "generatedAt"
	if h.Kind == "yaml" {
		path = "$.generatedAt"
	}
	spec := CfgSpec{Dir: "snaps", Filename: "f"}
	if h.Kind == "sjson" {
		spec.Filename = ""
	}
	call := func(doc string) Call {
		return Call{API: h.Kind, Doc: BS(doc), Form: "string", Matchers: []MatcherSpec{{Kind: "any", Paths: []string{path}}}}
	}
	newProcess(Mode{})
	ft := newFakeT("TestHugeDoc")
	r := call(h.doc("2026-01-01T00:00:00Z", -1)).invoke(spec.build(root), ft)
	ft.finish()
	if out, err := outcomeOf(r); err != nil || out != oAdded {
		return fmt.Errorf("recording: outcome %q err %v errors=%q", out, err, vhClipAll(r.Errors))
	}
	for _, v := range []struct {
		stamp string
		row   int
		want  string
	}{{"2027-02-02T10:10:10Z", -1, oPassed}, {"2026-01-01T00:00:00Z", h.DiffRow, oFailed}, {"2027-02-02T10:10:10Z", h.DiffRow, oFailed}} {
		newProcess(Mode{CI: true})
		ft = newFakeT("TestHugeDoc")
		r = call(h.doc(v.stamp, v.row)).invoke(spec.build(root), ft)
		ft.finish()
		if out, err := outcomeOf(r); err != nil || out != v.want {
			return fmt.Errorf("%d rows, variant (masked member %q, row that differs: %d): outcome %q err %v, want %s", h.Rows, v.stamp, v.row, out, err, v.want)
		}
	}
	return nil
}

func TestC16_HugeDocument(t *testing.T) {
	nshards, _ := strconv.Atoi(vhGetenv("VERIF_NSHARDS", "1"))
	shard, _ := strconv.Atoi(vhGetenv("VERIF_SHARD", "0"))
	var cases []hugeDocCase
	for k, rows := range []int{10050, 12000, 20000, 33000} {
		for j, at := range []int{3, rows / 2, 10001, rows - 1} {
			if !tierThorough() && (k+j)%2 == 1 {
				continue
			}
			cases = append(cases, hugeDocCase{Kind: []string{"json", "yaml", "sjson"}[(k+j)%3], Rows: rows, DiffRow: at})
		}
	}
	p := prop[hugeDocCase]{property: "C16", check: checkHugeDoc, classify: func(h hugeDocCase) ([]string, bool) {
		cls := []string{"kind_" + h.Kind, "document_of_more_than_10000_lines"}
		if h.DiffRow > 10000 {
			cls = append(cls, "difference_behind_line_10000")
		}
		return cls, true
	}}
	p.enumerate(t, func(yield func(hugeDocCase) bool) {
		for i, h := range cases {
			if i%nshards != shard {
				continue
			}
			if !yield(h) {
				return
			}
		}
	})
}
