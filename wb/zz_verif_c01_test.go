//go:build verif

// C01 Recorded snapshots replay cleanly (no false failures).
package snaps

import (
	"fmt"
	"os"
	"path/filepath"
	"strings"
	"testing"

	"pgregory.net/rapid"
)

type TestProg struct {
	Name  string `json:"name"`
	Calls []Call `json:"calls"`
}

type c01Case struct {
	Cfgs     []CfgSpec  `json:"cfgs"`
	Initial  [][]Entry  `json:"initial"` // per cfg: pre-existing well-formed content (nil = file absent)
	Tests    []TestProg `json:"tests"`
	Run2Mode string     `json:"run2_mode"`  // default | update_false | ci | clean
	Run2Perm []int      `json:"run2_order"` // order of tests in run 2
	Record   string     `json:"record"`     // env | option : how updating is enabled in run 1
	Count2   int        `json:"run2_count"` // run 2 executes every test this many times (-count)
	// InitialCRLF: the pre-existing files have CRLF line ends (a checkout with core.autocrlf): every reader of the format drops
	// the CR in front of the LF, so they hold the same entries
	InitialCRLF bool `json:"initial_files_with_crlf,omitempty"`
	// Between: before run 2 the multi-entry files are re-presented the way tools around a repository do it without changing
	// a line: "no_final_newline" (an editor or a merge tool stripped the last newline), "crlf" (checkout with autocrlf)
	Between string `json:"files_represented_between_runs,omitempty"`
	Inter2   []int      `json:"run2_interleave,omitempty"` // if set: run 2 interleaves the tests like parallel tests (choices of which live test moves next)
}

// genMultiCall draws a multi-entry call (MatchSnapshot / MatchJSON / MatchYAML) for config index cfg.
func genMultiCall(t *rapid.T, cfg int, o textOpts, col *collector) Call {
	switch rapid.IntRange(0, 9).Draw(t, "api") {
	case 0, 1:
		n := genJRoot(t, 3)
		doc := n.Compact()
		if rapid.Bool().Draw(t, "spaced") {
			doc = n.Spaced(t)
		}
		form := rapid.SampledFrom([]string{"string", "bytes", "value"}).Draw(t, "form")
		if n.K == "str" && form == "value" {
			// a Go string IS the text form by the API's contract, not a "marshalable value"
			form = "string"
		}
		return Call{API: "json", Cfg: cfg, Doc: BS(doc), Form: form}
	case 2, 3:
		return Call{API: "yaml", Cfg: cfg, Doc: BS(genValidYAML(t)), Form: rapid.SampledFrom([]string{"string", "bytes"}).Draw(t, "form")}
	default:
		nv := rapid.SampledFrom([]int{1, 1, 1, 2, 3}).Draw(t, "nvals")
		c := Call{API: "snap", Cfg: cfg}
		for i := 0; i < nv; i++ {
			c.Vals = append(c.Vals, genVal(t, o, col))
		}
		return c
	}
}

func genInitialEntries(t *rapid.T, names []string, o textOpts, max int) []Entry {
	n := rapid.IntRange(0, max).Draw(t, "ninitial")
	seen := map[string]bool{}
	var es []Entry
	for i := 0; i < n; i++ {
		id := entryID(rapid.SampledFrom(names).Draw(t, "iname"), rapid.IntRange(1, 15).Draw(t, "iord"))
		if seen[id] {
			continue
		}
		seen[id] = true
		body := refEscape(strings.TrimRight(genText(t, o), "\r"))
		if hasTrailingCR(body) {
			body = "x"
		}
		es = append(es, Entry{ID: BS(id), Body: BS(body)})
	}
	return es
}

func genC01(t *rapid.T) c01Case {
	col := getCollector("C01", "TestC01_Replay")
	ntests := rapid.IntRange(1, 4).Draw(t, "ntests")
	names := withOtherRunners(t, genNamePool(t, ntests+2)) // two extra names only appear in pre-existing entries
	o := textOpts{escapeToken: true, headerLike: true, names: names, long: true}
	c := c01Case{Cfgs: []CfgSpec{{Dir: "snaps", Filename: "f"}}}
	if rapid.IntRange(0, 4).Draw(t, "secondfile") == 0 {
		c.Cfgs = append(c.Cfgs, CfgSpec{Dir: "snaps", Filename: "g", Ext: rapid.SampledFrom([]string{"", ".txt"}).Draw(t, "ext")})
	}
	if rapid.IntRange(0, 5).Draw(t, "defaultname") == 0 {
		c.Cfgs[0].Filename = ""
		c.Cfgs[0].PkgLevel = rapid.Bool().Draw(t, "pkglevel") // package-level functions; only honoured when no Update option is needed
	}
	hasAlias := false
	if !c.Cfgs[0].PkgLevel && rapid.IntRange(0, 3).Draw(t, "alias") == 0 {
		// a second Config that addresses the SAME file as the first through another spelling of the directory (a helper that
		// builds the path with "/../", a trailing separator, "./"): one file, one sequence of ordinals per test
		alias := c.Cfgs[0]
		alias.DirStyle = rapid.SampledFrom([]string{"trailing", "dot", "dotdot", "double"}).Draw(t, "aliasstyle")
		c.Cfgs = append(c.Cfgs, alias)
		hasAlias = true
	}
	for i := range c.Cfgs {
		if hasAlias && i == len(c.Cfgs)-1 {
			c.Initial = append(c.Initial, nil) // the alias shares the first config's file
			continue
		}
		if rapid.IntRange(0, 2).Draw(t, "hasinitial") > 0 {
			c.Initial = append(c.Initial, genInitialEntries(t, names, o, 12))
		} else {
			c.Initial = append(c.Initial, nil)
		}
	}
	if rapid.IntRange(0, 29).Draw(t, "hugefile") == 0 {
		// a snapshot file of a few hundred KiB (many medium entries): crosses every read-buffer boundary of the scanners
		var es []Entry
		for i := 1; i <= rapid.IntRange(30, 60).Draw(t, "nhuge"); i++ {
			es = append(es, Entry{ID: BS(entryID(names[ntests], i)), Body: BS(bigText(t))})
		}
		c.Initial[0] = append(es, c.Initial[0]...)
	}
	for i := 0; i < ntests; i++ {
		ncalls := rapid.IntRange(1, 8).Draw(t, "ncalls")
		if rapid.IntRange(0, 6).Draw(t, "many") == 0 {
			ncalls = rapid.IntRange(10, 14).Draw(t, "ncalls10")
		}
		tp := TestProg{Name: names[i]}
		for k := 0; k < ncalls; k++ {
			tp.Calls = append(tp.Calls, genMultiCall(t, rapid.IntRange(0, len(c.Cfgs)-1).Draw(t, "cfg"), o, col))
		}
		c.Tests = append(c.Tests, tp)
	}
	c.InitialCRLF = rapid.IntRange(0, 4).Draw(t, "initialcrlf") == 0
	c.Run2Mode = rapid.SampledFrom([]string{"default", "update_false", "ci", "clean"}).Draw(t, "mode2")
	c.Between = rapid.SampledFrom([]string{"", "", "", "", "no_final_newline", "crlf"}).Draw(t, "between")
	c.Run2Perm = rapid.Permutation(vhIndices(ntests)).Draw(t, "perm")
	c.Record = rapid.SampledFrom([]string{"env", "option"}).Draw(t, "record")
	c.Count2 = rapid.SampledFrom([]int{1, 1, 1, 2, 3}).Draw(t, "count2")
	if ntests > 1 && rapid.IntRange(0, 2).Draw(t, "interleave2") == 0 {
		c.Count2 = 1
		c.Inter2 = rapid.SliceOfN(rapid.IntRange(0, 7), 4, 40).Draw(t, "inter2")
	}
	return c
}

func writeInitial(root string, cfgs []CfgSpec, initial [][]Entry, crlf ...bool) {
	for i, es := range initial {
		if es == nil || i >= len(cfgs) {
			continue
		}
		p := filepath.Join(root, cfgs[i].multiPath())
		os.MkdirAll(filepath.Dir(p), 0o755)
		text := refRender(es)
		if len(crlf) > 0 && crlf[0] && !strings.Contains(text, "\r") {
			text = strings.ReplaceAll(text, "\n", "\r\n")
		}
		os.WriteFile(p, []byte(text), 0o644)
	}
}

// representFile rewrites a multi-entry file in another presentation of the same lines.
func representFile(p, kind string) {
	b, err := os.ReadFile(p)
	if err != nil || kind == "" {
		return
	}
	text := string(b)
	switch kind {
	case "no_final_newline":
		text = strings.TrimSuffix(text, "\n")
	case "crlf":
		if strings.Contains(text, "\r") {
			return
		}
		text = strings.ReplaceAll(text, "\n", "\r\n")
	}
	os.WriteFile(p, []byte(text), 0o644)
}

func buildCfgs(root string, specs []CfgSpec, update *bool) []*Config {
	out := make([]*Config, len(specs))
	for i, s := range specs {
		if update != nil {
			s.Update = update
		}
		out[i] = s.build(root)
	}
	return out
}

func checkC01(c c01Case) error {
	root := scratchDir()
	defer os.RemoveAll(root)
	writeInitial(root, c.Cfgs, c.Initial, c.InitialCRLF)

	// run 1: record (update enabled)
	var cfgs []*Config
	if c.Record == "option" {
		newProcess(Mode{})
		cfgs = buildCfgs(root, c.Cfgs, vhBoolp(true))
	} else {
		newProcess(Mode{Update: "true"})
		cfgs = buildCfgs(root, c.Cfgs, nil)
	}
	for _, tp := range c.Tests {
		ft := newFakeT(tp.Name)
		for k, call := range tp.Calls {
			r := call.invoke(cfgs[call.Cfg], ft)
			out, err := outcomeOf(r)
			if err != nil {
				return fmt.Errorf("run 1 (recording) %s call %d: %v", tp.Name, k+1, err)
			}
			if out == oFailed {
				return fmt.Errorf("run 1 (recording) %s call %d (%s) failed although updating is enabled: %q", tp.Name, k+1, call.API, vhClipAll(r.Errors))
			}
		}
		ft.finish()
	}

	// run 2: replay read-only
	var upd *bool
	mode := Mode{}
	switch c.Run2Mode {
	case "update_false":
		upd = vhBoolp(false)
	case "ci":
		mode.CI = true
	case "clean":
		mode.Update = "clean"
	}
	for _, cf := range c.Cfgs {
		representFile(filepath.Join(root, cf.multiPath()), c.Between)
	}
	newProcess(mode)
	cfgs = buildCfgs(root, c.Cfgs, upd)
	before := snapDir(root)
	if len(c.Inter2) > 0 {
		// all tests are live at once; the choice list says which test makes its next call (or finishes)
		fts := make([]*fakeT, len(c.Tests))
		next := make([]int, len(c.Tests))
		live := len(c.Tests)
		for step := 0; live > 0; step++ {
			pick := step
			if step < len(c.Inter2) {
				pick = c.Inter2[step]
			}
			var alive []int
			for i := range c.Tests {
				if next[i] <= len(c.Tests[i].Calls) {
					alive = append(alive, i)
				}
			}
			ti := alive[pick%len(alive)]
			tp := c.Tests[ti]
			if fts[ti] == nil {
				fts[ti] = newFakeT(tp.Name)
			}
			if next[ti] == len(tp.Calls) {
				fts[ti].finish()
				next[ti]++
				live--
				continue
			}
			call := tp.Calls[next[ti]]
			next[ti]++
			r := call.invoke(cfgs[call.Cfg], fts[ti])
			out, err := outcomeOf(r)
			if err != nil || out != oPassed {
				return fmt.Errorf("run 2 (interleaved replay, mode %s) %s call %d (%s): outcome %q err %v; errors=%q logs=%q",
					c.Run2Mode, tp.Name, next[ti], call.API, out, err, vhClipAll(r.Errors), vhClipAll(r.Logs))
			}
		}
		if d := diffDirs(before, snapDir(root), false); d != "" {
			return fmt.Errorf("run 2 (interleaved replay) changed the snapshot directory: %s", d)
		}
		return nil
	}
	var order []int
	for i := 0; i < max(c.Count2, 1); i++ {
		order = append(order, c.Run2Perm...)
	}
	for _, ti := range order {
		tp := c.Tests[ti]
		ft := newFakeT(tp.Name)
		for k, call := range tp.Calls {
			r := call.invoke(cfgs[call.Cfg], ft)
			out, err := outcomeOf(r)
			if err != nil {
				return fmt.Errorf("run 2 (replay, mode %s) %s call %d: %v", c.Run2Mode, tp.Name, k+1, err)
			}
			if out != oPassed {
				return fmt.Errorf("run 2 (replay, mode %s) %s call %d (%s): outcome %s, want passed; errors=%q logs=%q",
					c.Run2Mode, tp.Name, k+1, call.API, out, vhClipAll(r.Errors), vhClipAll(r.Logs))
			}
		}
		ft.finish()
	}
	after := snapDir(root)
	if d := diffDirs(before, after, false); d != "" {
		return fmt.Errorf("run 2 (replay) changed the snapshot directory: %s", d)
	}
	return nil
}

func classifyC01(c c01Case) ([]string, bool) {
	var cls []string
	for i, cf := range c.Cfgs {
		if i > 0 && cf.DirStyle != "" && cf.Filename == c.Cfgs[0].Filename && cf.Dir == c.Cfgs[0].Dir {
			cls = append(cls, "one_file_through_two_spellings_of_the_directory")
		}
	}
	if c.InitialCRLF {
		for _, es := range c.Initial {
			if len(es) > 0 {
				cls = append(cls, "preexisting_file_with_crlf_line_ends")
				break
			}
		}
	}
	if c.Between != "" {
		cls = append(cls, "files_represented_between_runs_"+c.Between)
	}
	kinds := map[string]bool{}
	for _, tp := range c.Tests {
		if len(tp.Calls) >= 10 {
			cls = append(cls, "ten_or_more_calls_in_a_test")
		}
		for _, call := range tp.Calls {
			kinds[call.API] = true
			switch call.API {
			case "snap":
				for _, v := range call.Vals {
					cls = append(cls, textFeatures(v.Text())...)
					if v.Kind != "str" {
						cls = append(cls, "structured_value")
					}
				}
				if len(call.Vals) > 1 {
					cls = append(cls, "multi_value_call")
				}
			case "yaml":
				cls = append(cls, textFeatures(string(call.Doc))...)
			}
		}
	}
	if len(kinds) >= 2 {
		cls = append(cls, "mixed_entry_kinds_in_file")
	}
	for _, es := range c.Initial {
		if len(es) > 0 {
			cls = append(cls, "preexisting_entries")
		}
		if len(es) >= 30 {
			cls = append(cls, "file_over_128k")
		}
	}
	if len(c.Cfgs) > 1 {
		cls = append(cls, "two_files")
	}
	if c.Count2 > 1 {
		cls = append(cls, "replay_with_count_gt_1")
	}
	if len(c.Inter2) > 0 {
		cls = append(cls, "interleaved_replay")
	}
	cls = vhUniq(cls)
	return append(cls, "mode2_"+c.Run2Mode), len(cls) > 0
}

func TestC01_Replay(t *testing.T) {
	prop[c01Case]{property: "C01", gen: genC01, check: checkC01, classify: classifyC01}.run(t)
}
