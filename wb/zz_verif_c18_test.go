//go:build verif

// C18 YAML snapshots keep the document verbatim.
package snaps

import (
	"fmt"
	"net"
	"os"
	"path/filepath"
	"strings"
	"testing"

	"github.com/goccy/go-yaml"
	"pgregory.net/rapid"
)

type yamlDemo struct {
	Name  string            `yaml:"name"`
	Age   int               `yaml:"age"`
	Tags  []string          `yaml:"tags"`
	Notes string            `yaml:"notes,omitempty"`
	Extra map[string]string `yaml:"extra"`
	Inner *yamlDemoInner    `yaml:"inner"`
}

type yamlDemoInner struct {
	Flag  bool    `yaml:"flag"`
	Ratio float64 `yaml:"ratio"`
}

type c18Case struct {
	Huge     bool          `json:"huge_file,omitempty"` // the file already holds 60-250 KiB of other entries and the document is ~15 KiB
	HugeN    int           `json:"huge_entries,omitempty"`
	Kind     string        `json:"kind"` // text | invalid | value | struct | newline_with_matcher
	Doc      BS            `json:"doc,omitempty"`
	Form     string        `json:"form,omitempty"`
	Value    BS            `json:"value_json,omitempty"` // value: JSON text decoded into nested maps/slices
	Struct   *yamlDemoSpec `json:"struct,omitempty"`
	Test     string        `json:"test"`
	Before   int           `json:"calls_before"`
	Matchers []MatcherSpec `json:"matchers,omitempty"`
	// ViaUpdate (text): the id already holds another document; the document is stored by an updating run (the rewrite path)
	ViaUpdate bool `json:"stored_by_an_update_of_another_document,omitempty"`
}

type yamlDemoSpec struct {
	Name  string   `json:"name"`
	Age   int      `json:"age"`
	Tags  []string `json:"tags"`
	Notes string   `json:"notes"`
	Keys  []string `json:"keys"`
	Inner bool     `json:"inner"`
}

func (s yamlDemoSpec) build(reverse bool) yamlDemo {
	d := yamlDemo{Name: s.Name, Age: s.Age, Tags: s.Tags, Notes: s.Notes, Extra: map[string]string{}}
	keys := append([]string{}, s.Keys...)
	if reverse {
		for i, j := 0, len(keys)-1; i < j; i, j = i+1, j-1 {
			keys[i], keys[j] = keys[j], keys[i]
		}
	}
	for _, k := range keys {
		d.Extra[k] = "v-" + k
	}
	if s.Inner {
		d.Inner = &yamlDemoInner{Flag: true, Ratio: 0.25}
	}
	return d
}

var invalidYAML = []string{"a: 1\na: 2\n", "{y: 1, y: 2}", `{"name": "a", "name": "b"}`, `{"a": {"k": 1, "k": 2}}`, `[{"id": 1, "id": 2}]`, "x: &d\n  k: 1\nsvc:\n  <<: *d\n  image: a\n  image: b\n", "# merged with <<\nimage: a\nimage: b\n",
	"base: &b {k: 1}\none:\n  <<: *b\n---\nscript: a\nscript: b\n", "a: [1, 2", "a: 'unterminated", "a: \"unterminated", "a: b: c", "a: *missing", "k: &x 1\nb: *y\n", "\tindented: with tab", "a: 1\n b: 2\n", "{a: 1", "- a\n-b: [", "a: 1\n---\nb: *nope\n", "? [", "a: |\nnot indented\nb: {"}

const c18Previous = "previous: document\nlist:\n  - 1\n"

func genC18(t *rapid.T) c18Case {
	c := c18Case{Test: genTestName(t), Before: rapid.IntRange(0, 2).Draw(t, "before")}
	if rapid.Bool().Draw(t, "testa") {
		c.Test = "TestA" // the name used by header-looking lines of the document grammar
	}
	c.Huge = rapid.IntRange(0, 24).Draw(t, "huge") == 0
	c.HugeN = rapid.IntRange(20, 80).Draw(t, "hugen")
	switch k := rapid.IntRange(0, 9).Draw(t, "kind"); {
	case k < 5:
		doc := genYAMLDocText(t)
		c.Kind = "text"
		if !yamlValid(doc) {
			c.Kind = "invalid"
		}
		if hasTrailingCR(doc) {
			doc, c.Kind = "a: 1\n", "text"
		}
		if c.Huge && c.Kind == "text" {
			var sb strings.Builder
			for l := 0; l < rapid.IntRange(200, 400).Draw(t, "hugelines"); l++ {
				fmt.Fprintf(&sb, "key_%d: %s\n", l, strings.Repeat("w", 10+(l*17)%60))
				if l%50 == 49 {
					sb.WriteString("---\n")
				}
			}
			doc = sb.String()
		}
		c.Doc = BS(doc)
		c.Form = rapid.SampledFrom([]string{"string", "bytes"}).Draw(t, "form")
		c.ViaUpdate = c.Kind == "text" && doc != c18Previous && rapid.IntRange(0, 2).Draw(t, "viaupdate") == 0
	case k < 6:
		doc := rapid.SampledFrom(invalidYAML).Draw(t, "invalid")
		if rapid.Bool().Draw(t, "appendvalid") {
			doc = "ok: 1\n" + doc
		}
		c.Kind = "invalid"
		if yamlValid(doc) {
			c.Kind = "text"
		}
		c.Doc = BS(doc)
		c.Form = rapid.SampledFrom([]string{"string", "bytes"}).Draw(t, "form")
	case k < 7:
		c.Kind = "value"
		n := JNode{K: "obj"}
		for i, key := range rapid.Permutation([]string{"zeta", "alpha", "mid", "k10", "k9", "b"}).Draw(t, "keys") {
			if i >= rapid.IntRange(3, 6).Draw(t, "nkeys") {
				break
			}
			n.Keys = append(n.Keys, key)
			n.Kids = append(n.Kids, genYTree(t, 2))
		}
		c.Value = BS(n.Compact())
	case k < 8:
		c.Kind = "struct"
		c.Struct = &yamlDemoSpec{Name: rapid.SampledFrom([]string{"bob", "multi\nline\nname", "with: colon", "---", ""}).Draw(t, "name"), Age: rapid.IntRange(0, 99).Draw(t, "age"),
			Tags: rapid.SliceOfN(rapid.SampledFrom([]string{"x", "y z", "---", "- dash"}), 0, 3).Draw(t, "tags"), Notes: rapid.SampledFrom([]string{"", "note", "line1\nline2\n"}).Draw(t, "notes"),
			Keys: rapid.SliceOfNDistinct(rapid.SampledFrom([]string{"k1", "k2", "a", "z", "m"}), 0, 5, func(s string) string { return s }).Draw(t, "ekeys"), Inner: rapid.Bool().Draw(t, "inner")}
	default:
		c.Kind = "newline_with_matcher"
		tree := genYRoot(t)
		doc := renderYAML(tree)
		if rapid.Bool().Draw(t, "nonl") {
			doc = strings.TrimSuffix(doc, "\n")
		}
		c.Doc = BS(doc)
		c.Form = rapid.SampledFrom([]string{"string", "bytes"}).Draw(t, "form")
		if comps, ok := genExistingPath(t, tree, true); ok {
			c.Matchers = []MatcherSpec{{Kind: "any", Paths: []string{yamlPath(comps)}}}
		} else {
			c.Kind = "text"
		}
	}
	return c
}

func checkC18(c c18Case) error {
	if err := checkC18TypedValues(c.Test, len(c.Doc)+len(c.Value)+c.Before+c.HugeN); err != nil {
		return err
	}
	root := scratchDir()
	defer os.RemoveAll(root)
	spec := CfgSpec{Dir: "snaps", Filename: "f"}
	if len(c.Test)%2 == 1 {
		spec = CfgSpec{Dir: "snaps", PkgLevel: true} // package-level MatchYAML / MatchSnapshot
	}
	file := filepath.Join(root, spec.multiPath())
	filler := func(i int) Call { return Call{API: "snap", Vals: []Val{strVal(fmt.Sprintf("filler %d", i))}} }
	k := c.Before + 1
	id := entryID(c.Test, k)

	nHuge := 0
	if c.Huge {
		var es []Entry
		for i := 1; i <= max(c.HugeN, 20); i++ {
			var sb strings.Builder
			for l := 0; l < 60; l++ {
				fmt.Fprintf(&sb, "k%d_%d: %s\n", i, l, strings.Repeat("v", 20+(i*7+l*13)%50))
			}
			es = append(es, Entry{ID: BS(entryID("TestHugeNeighbour", i)), Body: BS(sb.String())})
		}
		nHuge = len(es)
		os.MkdirAll(filepath.Dir(file), 0o755)
		os.WriteFile(file, []byte(refRender(es)), 0o644)
	}
	wantOut := oAdded
	if c.ViaUpdate && c.Kind == "text" {
		newProcess(Mode{})
		cfg0 := spec.build(root)
		ft0 := newFakeT(c.Test)
		for i := 1; i <= c.Before; i++ {
			filler(i).invoke(cfg0, ft0)
		}
		if r0 := (Call{API: "yaml", Doc: c18Previous, Form: "string"}).invoke(cfg0, ft0); len(r0.Errors) != 0 {
			return fmt.Errorf("harness: storing the previous document: %q", vhClipAll(r0.Errors))
		}
		filler(50).invoke(cfg0, ft0)
		ft0.finish()
		newProcess(Mode{Update: "true"})
		wantOut = oUpdated
	} else {
		newProcess(Mode{})
	}
	cfg := spec.build(root)
	ft := newFakeT(c.Test)
	for i := 1; i <= c.Before; i++ {
		filler(i).invoke(cfg, ft)
	}
	before := snapDir(root)
	var r callResult
	var stored2 func() (string, error)
	switch c.Kind {
	case "text", "invalid", "newline_with_matcher":
		r = Call{API: "yaml", Doc: c.Doc, Form: c.Form, Matchers: c.Matchers, EmptyMatchers: len(c.Doc)%2 == 0}.invoke(cfg, ft)
	case "value":
		r = Call{API: "yaml", Doc: c.Value, Form: "value"}.invoke(cfg, ft)
		stored2 = func() (string, error) {
			return storeYAMLValue(yamlValueOf(string(c.Value)), c.Test)
		}
	case "struct":
		if _, pl := pkgLevelDir(cfg); pl {
			cfg = CfgSpec{Dir: "snaps", Filename: apiFileBase}.build(root)
		}
		cfg.MatchYAML(ft, c.Struct.build(false))
		e, l := ft.drain()
		r = callResult{Errors: e, Logs: l, Events: map[string]int{"added": 1}, InputOK: true}
		stored2 = func() (string, error) { return storeYAMLValue(c.Struct.build(true), c.Test) }
	}
	out, err := outcomeOf(r)
	if err != nil {
		return err
	}
	if !r.InputOK {
		return fmt.Errorf("the caller's input was modified")
	}
	after := snapDir(root)
	if c.Kind == "invalid" {
		if out != oFailed {
			return fmt.Errorf("input %q is rejected by the YAML library but the call ended as %q", vhClip(string(c.Doc)), out)
		}
		if !strings.Contains(r.Errors[0], "invalid yaml") {
			return fmt.Errorf("failure does not say `invalid yaml`: %q", vhClip(r.Errors[0]))
		}
		if d := diffDirs(before, after, false); d != "" {
			return fmt.Errorf("invalid YAML wrote: %s", d)
		}
		rr := filler(99).invoke(cfg, ft)
		ft.finish()
		if o2, _ := outcomeOf(rr); o2 != oAdded {
			return fmt.Errorf("call after the invalid one: outcome %q", o2)
		}
		es, _ := refParse(vhReadFile(file))
		if findEntry(es, entryID(c.Test, k+1)) < 0 || findEntry(es, id) >= 0 {
			return fmt.Errorf("the failing call must consume its ordinal: expected entry %q and no %q, file has %s", entryID(c.Test, k+1), id, describeEntries(es))
		}
		// the same text is not valid YAML either when the file already holds it under that id (the test used to call
		// MatchSnapshot with this string; a hand-edited file): one `invalid yaml` failure in every mode, nothing written
		if hasTrailingCR(string(c.Doc)) {
			return nil
		}
		root2 := scratchDir()
		defer os.RemoveAll(root2)
		spec2 := CfgSpec{Dir: "snaps", Filename: "f"}
		newProcess(Mode{})
		ft2 := newFakeT(c.Test)
		if r0 := (Call{API: "snap", Vals: []Val{strVal(string(c.Doc))}}).invoke(spec2.build(root2), ft2); len(r0.Errors) != 0 {
			return fmt.Errorf("harness: storing the text through MatchSnapshot: %q", vhClipAll(r0.Errors))
		}
		ft2.finish()
		for _, mode := range []Mode{{}, {CI: true}, {Update: "true"}} {
			newProcess(mode)
			ageDir(root2)
			pre2 := snapDir(root2)
			ft2 = newFakeT(c.Test)
			r2 := Call{API: "yaml", Doc: c.Doc, Form: c.Form}.invoke(spec2.build(root2), ft2)
			ft2.finish()
			if o2, _ := outcomeOf(r2); o2 != oFailed || len(r2.Errors) == 0 || !strings.Contains(r2.Errors[0], "invalid yaml") {
				return fmt.Errorf("input %q is not valid YAML; with the identical text already stored under the id (mode %+v) the call ended as %q errors=%q", vhClip(string(c.Doc)), mode, o2, vhClipAll(r2.Errors))
			}
			if d := diffDirs(pre2, snapDir(root2), true); d != "" {
				return fmt.Errorf("invalid YAML (identical text already stored, mode %+v) wrote: %s", mode, d)
			}
		}
		return nil
	}
	if out != wantOut {
		return fmt.Errorf("recording (%s): outcome %q, want %q; errors=%q", c.Kind, out, wantOut, vhClipAll(r.Errors))
	}
	// one more call of the test after the document (its entry follows the document in the file)
	if ra := filler(50).invoke(cfg, ft); len(ra.Errors) != 0 {
		return fmt.Errorf("call after the YAML call fails while recording: %q", vhClipAll(ra.Errors))
	}
	ft.finish()
	es, perr := refParse(vhReadFile(file))
	if perr != nil {
		return fmt.Errorf("file not well formed after recording %q: %v; content %q", vhClip(string(c.Doc)), perr, vhClip(vhReadFile(file)))
	}
	idx := findEntry(es, id)
	if idx < 0 || len(es) != c.Before+2+nHuge {
		tail := es
		if len(tail) > 3 {
			tail = tail[len(tail)-3:]
		}
		return fmt.Errorf("expected %d entries incl. %q, file has %d; last entries: %s", c.Before+2+nHuge, id, len(es), describeEntries(tail))
	}
	body := string(es[idx].Body)
	switch c.Kind {
	case "text":
		if want := refEscape(string(c.Doc)); body != want {
			return fmt.Errorf("stored body is not the document verbatim:\n input  %q\n stored %q", vhClip(want), vhClip(body))
		}
	case "newline_with_matcher":
		if strings.HasSuffix(string(c.Doc), "\n") != strings.HasSuffix(body, "\n") {
			return fmt.Errorf("presence of the final newline not preserved through a matcher: input %q stored %q", vhClip(string(c.Doc)), vhClip(body))
		}
	case "value", "struct":
		other, err := stored2()
		if err != nil {
			return err
		}
		if other != body {
			return fmt.Errorf("the same Go value was marshalled to different text in two processes:\n%q\n%q", vhClip(body), vhClip(other))
		}
	}
	if c.Huge {
		// more entries of another test behind the document, so that the document is in the middle of a large file
		var sb strings.Builder
		for i := 1; i <= 40; i++ {
			sb.WriteString("\n[" + entryID("TestHugeTail", i) + "]\n")
			for l := 0; l < 50; l++ {
				fmt.Fprintf(&sb, "t%d_%d: %s\n", i, l, strings.Repeat("z", 15+(i*5+l*11)%50))
			}
			sb.WriteString("---\n")
		}
		f, _ := os.OpenFile(file, os.O_APPEND|os.O_WRONLY, 0o644)
		f.WriteString(sb.String())
		f.Close()
	}
	// read-only replay: passes and writes nothing
	newProcess(Mode{CI: true})
	cfg = spec.build(root)
	ageDir(root)
	pre := snapDir(root)
	ft = newFakeT(c.Test)
	for i := 1; i <= c.Before; i++ {
		filler(i).invoke(cfg, ft)
	}
	switch c.Kind {
	case "value":
		r = Call{API: "yaml", Doc: c.Value, Form: "value"}.invoke(cfg, ft)
	case "struct":
		if _, pl := pkgLevelDir(cfg); pl {
			cfg = CfgSpec{Dir: "snaps", Filename: apiFileBase}.build(root)
		}
		cfg.MatchYAML(ft, c.Struct.build(true))
		e, l := ft.drain()
		r = callResult{Errors: e, Logs: l}
	default:
		r = Call{API: "yaml", Doc: c.Doc, Form: c.Form, Matchers: c.Matchers}.invoke(cfg, ft)
	}
	if ra := filler(50).invoke(cfg, ft); len(ra.Errors) != 0 || len(ra.Logs) != 0 {
		return fmt.Errorf("replaying the call after the YAML call: errors=%q logs=%q", vhClipAll(ra.Errors), vhClipAll(ra.Logs))
	}
	ft.finish()
	if len(r.Errors) != 0 || len(r.Logs) != 0 {
		return fmt.Errorf("replaying the same %s input fails: errors=%q logs=%q", c.Kind, vhClipAll(r.Errors), vhClipAll(r.Logs))
	}
	if d := diffDirs(pre, snapDir(root), true); d != "" {
		return fmt.Errorf("replay wrote: %s", d)
	}
	if c.Kind != "text" || c.Huge {
		return nil
	}
	// a Clean run that has to rewrite the file (an obsolete neighbour is pruned): the document is still there verbatim
	if _, pl := pkgLevelDir(cfg); pl {
		return nil
	}
	data := vhReadFile(file)
	os.WriteFile(file, []byte(data+"\n[TestZZObsoleteNeighbour - 1]\nobsolete\n---\n"), 0o644)
	newProcess(Mode{Update: "clean"})
	cfg = spec.build(root)
	ft = newFakeT(c.Test)
	for i := 1; i <= c.Before; i++ {
		filler(i).invoke(cfg, ft)
	}
	r = Call{API: "yaml", Doc: c.Doc, Form: c.Form, Matchers: c.Matchers}.invoke(cfg, ft)
	filler(50).invoke(cfg, ft)
	ft.finish()
	if len(r.Errors) != 0 {
		return fmt.Errorf("replay before Clean: %q", vhClipAll(r.Errors))
	}
	runClean("", 1)
	es2, perr2 := refParse(vhReadFile(file))
	if perr2 != nil {
		return fmt.Errorf("file not well formed after Clean pruned a neighbour: %v", perr2)
	}
	if j := findEntry(es2, id); j < 0 || string(es2[j].Body) != body {
		return fmt.Errorf("after Clean pruned an obsolete neighbour the document is not stored verbatim any more:\n before %q\n after  %s", vhClip(body), describeEntries(es2))
	}
	if findEntry(es2, "TestZZObsoleteNeighbour - 1") >= 0 {
		return fmt.Errorf("harness: Clean did not prune the obsolete neighbour")
	}
	return nil
}

// storeYAMLValue records a Go value alone in a fresh directory/process and returns the stored body.
func storeYAMLValue(v any, test string) (string, error) {
	root := scratchDir()
	defer os.RemoveAll(root)
	newProcess(Mode{})
	spec := CfgSpec{Dir: "snaps", Filename: "f"}
	ft := newFakeT(test)
	spec.build(root).MatchYAML(ft, v)
	ft.finish()
	if e, _ := ft.drain(); len(e) != 0 {
		return "", fmt.Errorf("storing the value again: %q", vhClipAll(e))
	}
	es, err := refParse(vhReadFile(filepath.Join(root, spec.multiPath())))
	if err != nil || len(es) != 1 {
		return "", fmt.Errorf("storing the value again: %d entries (%v)", len(es), err)
	}
	return string(es[0].Body), nil
}

type c18Severity uint8
type c18Manifest []byte
type c18Text string

// c18TypedValues: Go values that are NOT documents (their kinds resemble string / []byte): each must be stored as the YAML
// library marshals it with the fixed encoder options (snaps/matchYAML.go: Indent(2), IndentSequence(true)).
type c18User struct {
	Name string
	Tags map[string]string
}

type c18Deploy struct {
	Labels   map[string]string
	Selector map[string]string
	Default  *c18User
	Current  *c18User
	Owners   []*c18User
}

func c18TypedValues() []any {
	// values in which one map / one pointer is reachable along two paths (labels reused as the selector, the same user
	// twice): shared, not cyclic
	labels := map[string]string{"app": "web", "tier": "front"}
	u := &c18User{Name: "ann", Tags: labels}
	return []any{
		c18Deploy{Labels: labels, Selector: labels, Default: u, Current: u, Owners: []*c18User{u, u}},
		map[string]any{"a": labels, "b": labels}, []*c18User{u, u},
		[]c18Severity{1, 2, 3}, []c18Severity{}, []c18Severity{91, 58, 32}, c18Manifest("a: 1\n"), c18Text("a: 1"), c18Text("plain"),
		net.ParseIP("10.0.0.1"), map[string]any{"levels": []c18Severity{4, 5}, "name": c18Text("x")}, []string{"a", "b"}, [3]int{1, 2, 3},
	}
}

func checkC18TypedValues(test string, pick int) error {
	vals := c18TypedValues()
	v := vals[pick%len(vals)]
	want, err := yaml.MarshalWithOptions(v, yaml.Indent(2), yaml.IndentSequence(true))
	if err != nil {
		return nil // not marshalable: outside the clause
	}
	got, err := storeYAMLValue(v, test)
	if err != nil {
		return fmt.Errorf("Go value %T(%v), which the YAML library marshals to %q: %v", v, v, vhClip(string(want)), err)
	}
	if strings.TrimSuffix(refUnescape(got), "\n") != strings.TrimSuffix(string(want), "\n") {
		return fmt.Errorf("Go value %T(%v) is stored as %q, the YAML library (Indent 2, IndentSequence) marshals it to %q", v, v, vhClip(got), vhClip(string(want)))
	}
	return nil
}

func classifyC18(c c18Case) ([]string, bool) {
	cls := []string{"kind_" + c.Kind}
	nt := false
	doc := string(c.Doc)
	if c.Kind == "text" && c.ViaUpdate {
		cls = append(cls, "stored_by_an_update_of_another_document")
	}
	if c.Kind == "text" {
		for _, l := range strings.Split(doc, "\n") {
			switch {
			case l == "---" || l == "...":
				cls = append(cls, "document_separator_line")
				nt = true
			case strings.Contains(l, "#"):
				cls = append(cls, "comment")
				nt = true
			case strings.HasPrefix(l, "[Test"):
				cls = append(cls, "header_looking_line")
				nt = true
			case strings.TrimSpace(l) == "---" || strings.TrimSpace(l) == "/-/-/-/":
				cls = append(cls, "terminator_in_block_scalar")
				nt = true
			}
		}
		if !strings.HasSuffix(doc, "\n") {
			cls = append(cls, "no_final_newline")
			nt = true
		}
		if strings.HasSuffix(doc, "\n\n") {
			cls = append(cls, "trailing_blank_lines")
			nt = true
		}
	}
	if c.Kind == "value" || c.Kind == "struct" || c.Kind == "invalid" || c.Kind == "newline_with_matcher" {
		nt = true
	}
	return vhUniq(cls), nt
}

func TestC18_YAMLVerbatim(t *testing.T) {
	prop[c18Case]{property: "C18", gen: genC18, check: checkC18, classify: classifyC18}.run(t)
}
