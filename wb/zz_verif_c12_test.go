//go:build verif

// C12 Config values are immutable; calls through them are order-independent.
package snaps

import (
	"fmt"
	"os"
	"path/filepath"
	"sync"
	"testing"

	"pgregory.net/rapid"
)

type c12Call struct {
	Call Call   `json:"call"`
	Via  string `json:"via"` // A | B | late (a Config built from A's options right before the call)
}

type c12Case struct {
	Spec  CfgSpec   `json:"options_a"`
	Over  CfgSpec   `json:"overrides_b"` // B = A's option values + these overrides (only non-zero fields)
	Calls []c12Call `json:"calls"`
	Mode  Mode      `json:"mode"`
	// RmDirAt > 0: before call number RmDirAt the first test ends, the whole snapshot directory is removed (a test
	// tidying up its scratch directory) and the remaining calls run in a second test. Those calls must behave exactly as
	// they do in a process that makes only them (the directory is created again).
	RmDirAt int `json:"rmdir_before_call,omitempty"`
	// KeepDir (with RmDirAt): the directory is NOT removed; instead the calls before RmDirAt run in a test whose name differs
	// from the second test's name only in the case of one letter. The calls of the second test must end as they do alone.
	KeepDir bool `json:"keep_directory_earlier_test_differs_in_case,omitempty"`
	// Build: how the shared Configs come into being: "" = WithConfig(options...); "zero_then_apply" = A is WithConfig() with
	// no options, the options are applied to it afterwards as the functions they are (snaps.Dir(d)(cfg)); "copy_then_apply" =
	// B is a struct copy of A (b := *a) to which the overrides are applied afterwards
	Build string `json:"how_the_shared_configs_are_built,omitempty"`
}

// optionValues builds the option functions of a spec (Dir relative to root); zero fields produce no option.
func optionValues(root string, c CfgSpec, withDir bool) []func(*Config) {
	var opts []func(*Config)
	if withDir {
		opts = append(opts, Dir(filepath.Join(root, c.Dir)))
	}
	if c.Filename != "" {
		opts = append(opts, Filename(c.Filename))
	}
	if c.Ext != "" {
		opts = append(opts, Ext(c.Ext))
	}
	if c.Update != nil {
		opts = append(opts, Update(*c.Update))
	}
	if c.JSON != nil {
		opts = append(opts, JSON(JSONConfig{Width: c.JSON.Width, Indent: c.JSON.Indent, SortKeys: c.JSON.SortKeys}))
	}
	return opts
}

func mergeSpec(a, over CfgSpec) CfgSpec {
	m := a
	if over.Filename != "" {
		m.Filename = over.Filename
	}
	if over.Ext != "" {
		m.Ext = over.Ext
	}
	if over.Update != nil {
		m.Update = over.Update
	}
	if over.JSON != nil {
		m.JSON = over.JSON
	}
	return m
}

var jsonCfgPool = []*JSONCfg{nil, nil, {Indent: "\t", SortKeys: false, Width: 0}, {Indent: "  ", SortKeys: true, Width: 80}, {Indent: " ", SortKeys: false, Width: 20},
	{Indent: "", SortKeys: true, Width: 0}, {Indent: "", SortKeys: false, Width: 0}, {Indent: " ", SortKeys: true, Width: 40}}

func genOptSpec(t *rapid.T, label string) CfgSpec {
	s := CfgSpec{Dir: "snaps"}
	s.Filename = rapid.SampledFrom([]string{"", "f", "g"}).Draw(t, label+"fn")
	s.Ext = rapid.SampledFrom([]string{"", "", ".txt", ".json", "json", "_golden"}).Draw(t, label+"ext") // (an Ext is appended as it is, dot or not)
	switch rapid.IntRange(0, 3).Draw(t, label+"upd") {
	case 0:
		s.Update = vhBoolp(true)
	case 1:
		s.Update = vhBoolp(false)
	}
	s.JSON = rapid.SampledFrom(jsonCfgPool).Draw(t, label+"json")
	return s
}

func genC12(t *rapid.T) c12Case {
	col := getCollector("C12", "TestC12_ConfigImmutable")
	c := c12Case{Spec: genOptSpec(t, "a"), Over: genOptSpec(t, "b")}
	c.Over.Dir = ""
	if rapid.Bool().Draw(t, "noext") {
		c.Spec.Ext = "" // the shape that matters for MatchStandaloneJSON's default extension
	}
	switch rapid.IntRange(0, 2).Draw(t, "mode") {
	case 1:
		c.Mode = Mode{Update: "true"}
	case 2:
		c.Mode = Mode{Update: "clean"}
	}
	o := textOpts{maxLines: 2}
	n := rapid.IntRange(1, 8).Draw(t, "ncalls")
	for i := 0; i < n; i++ {
		api := rapid.SampledFrom([]string{"snap", "json", "yaml", "ssnap", "sjson", "sjson", "json"}).Draw(t, "api")
		call := genAnyCall(t, api, o, col)
		if api == "json" || api == "sjson" {
			// documents on which the JSON options make a visible difference
			call.Doc = BS(rapid.SampledFrom([]string{`{"b":[1,2,3],"a":{"y":1,"x":[true,null]}}`, `{"z":1,"a":2}`, `{"z":2,"a":1}`, `{"a":7,"z":9}`, `[{"k":"v","a":1},[1,2]]`}).Draw(t, "jdoc"))
			call.Form = rapid.SampledFrom([]string{"string", "bytes", "value", "bytes_reused", "bytes_reused"}).Draw(t, "jform")
		}
		if (api == "snap" || api == "ssnap") && hasTrailingCR(call.snapText()) {
			call = Call{API: api, Vals: []Val{strVal("plain")}}
		}
		c.Calls = append(c.Calls, c12Call{Call: call, Via: rapid.SampledFrom([]string{"A", "A", "A", "B", "late"}).Draw(t, "via")})
	}
	c.Build = rapid.SampledFrom([]string{"", "", "", "zero_then_apply", "copy_then_apply"}).Draw(t, "build")
	if n >= 2 && rapid.IntRange(0, 3).Draw(t, "rmdir") == 0 {
		c.RmDirAt = rapid.IntRange(2, n).Draw(t, "rmdirat")
		// (with a fixed Filename the standalone files of two tests coincide by design: only without one)
		c.KeepDir = c.Spec.Filename == "" && c.Over.Filename == "" && rapid.Bool().Draw(t, "keepdir")
	}
	return c
}

type c12Obs struct {
	outcomes []string
	dir      dirState
}

func runC12(c c12Case, shared bool) (c12Obs, error) { return runC12From(c, shared, 0) }

// runC12From with from > 0 is the reference of the remove-directory relation: a process that makes only the calls
// from index from on (in the second test), nothing before them.
func runC12From(c c12Case, shared bool, from int) (c12Obs, error) {
	root := scratchDir()
	defer os.RemoveAll(root)
	newProcess(c.Mode)
	var a, b *Config
	if shared {
		// the same option VALUES are used for A and for B (a shared base-options slice), B adds overrides
		base := optionValues(root, c.Spec, true)
		a = WithConfig(base...)
		b = WithConfig(append(append([]func(*Config){}, base...), optionValues(root, c.Over, false)...)...)
		switch c.Build {
		case "zero_then_apply":
			a = WithConfig()
			for _, o := range base {
				o(a)
			}
		case "copy_then_apply":
			cp := *a
			b = &cp
			for _, o := range optionValues(root, c.Over, false) {
				o(b)
			}
		}
	}
	// witness: the same document through Config A (and through the options of A built fresh) before and after the
	// sequence; what A stores must not depend on the calls made in between (through A, B or any other Config)
	witness := func(name string) {
		wt := newFakeT(name)
		cfg := a
		if !shared {
			cfg = c.Spec.build(root)
		}
		Call{API: "json", Doc: BS(witnessDoc), Form: "string"}.invoke(cfg, wt)
		Call{API: "sjson", Doc: BS(witnessDoc), Form: "bytes"}.invoke(cfg, wt)
		// ... and a Config built right now from nothing but a directory: it gets the package defaults for everything else,
		// whatever options other Configs were given or had applied to them
		plain := CfgSpec{Dir: "plain"}.build(root)
		Call{API: "snap", Vals: []Val{strVal("through a Config with default name and extension")}}.invoke(plain, wt)
		Call{API: "sjson", Doc: BS(witnessDoc), Form: "string"}.invoke(plain, wt)
		wt.finish()
	}
	if from == 0 {
		witness("TestWitnessBefore")
	}
	ft := newFakeT("TestCfg")
	if c.KeepDir {
		ft = newFakeT("TestCfgAfterRemovaL")
	}
	if from > 0 {
		ft = newFakeT("TestCfgAfterRemoval")
	}
	var obs c12Obs
	for i, cc := range c.Calls {
		if i < from {
			continue
		}
		if from == 0 && c.RmDirAt > 0 && i == c.RmDirAt-1 {
			ft.finish()
			if !c.KeepDir {
				if err := os.RemoveAll(root); err != nil {
					return obs, fmt.Errorf("harness: %v", err)
				}
			}
			ft = newFakeT("TestCfgAfterRemoval")
		}
		var cfg *Config
		switch {
		case !shared && cc.Via == "B":
			cfg = mergeSpec(c.Spec, c.Over).build(root)
		case !shared || cc.Via == "late":
			cfg = c.Spec.build(root)
		case cc.Via == "B":
			cfg = b
		default:
			cfg = a
		}
		r := cc.Call.invoke(cfg, ft)
		out, err := outcomeOf(r)
		if err != nil {
			return obs, fmt.Errorf("call %d (%s via %s): %v", i+1, cc.Call.API, cc.Via, err)
		}
		if !r.InputOK {
			return obs, fmt.Errorf("call %d (%s via %s) modified the caller's input", i+1, cc.Call.API, cc.Via)
		}
		obs.outcomes = append(obs.outcomes, out)
	}
	ft.finish()
	witness("TestWitnessAfter")
	obs.dir = snapDir(root)
	if from > 0 || c.RmDirAt > 0 {
		return obs, nil // the first witness is gone with the directory
	}
	// compare what the two witness executions stored
	spec := c.Spec
	mp := spec.multiPath()
	es, _ := refParse(obs.dir[mp].Data)
	i1, i2 := findEntry(es, "TestWitnessBefore - 1"), findEntry(es, "TestWitnessAfter - 1")
	if i1 < 0 && i2 < 0 {
		return obs, nil // Update(false): nothing may be created through this Config
	}
	if i1 < 0 || i2 < 0 {
		return obs, fmt.Errorf("only one of the two witness entries exists in %q: %s", mp, describeEntries(es))
	}
	if es[i1].Body != es[i2].Body {
		return obs, fmt.Errorf("the same document through the same Config is stored differently before and after the call sequence (a call changed the Config or package-level state):\nbefore %q\nafter  %q", vhClip(string(es[i1].Body)), vhClip(string(es[i2].Body)))
	}
	s1 := obs.dir[spec.standalonePath("TestWitnessBefore", 1, true)].Data
	s2 := obs.dir[spec.standalonePath("TestWitnessAfter", 1, true)].Data
	if spec.Filename != "" {
		s2 = s1 // a fixed Filename maps both witnesses to the same standalone file
	}
	if s1 != s2 {
		return obs, fmt.Errorf("the same document through the same Config is stored differently (standalone) before and after the call sequence:\nbefore %q\nafter  %q", vhClip(s1), vhClip(s2))
	}
	return obs, nil
}

const witnessDoc = `{"zeta":[1,2,3],"alpha":{"y":[true,null,"a long enough string to matter for width"],"x":1}}`

func checkC12(c c12Case) error {
	sharedObs, err := runC12(c, true)
	if err != nil {
		return fmt.Errorf("shared configs: %v", err)
	}
	freshObs, err := runC12(c, false)
	if err != nil {
		return fmt.Errorf("fresh configs: %v", err)
	}
	for i := range c.Calls {
		if sharedObs.outcomes[i] != freshObs.outcomes[i] {
			return fmt.Errorf("call %d (%s via %s): outcome %s through the shared Config, %s through a fresh Config with the same options", i+1, c.Calls[i].Call.API, c.Calls[i].Via, sharedObs.outcomes[i], freshObs.outcomes[i])
		}
	}
	if d := diffDirs(freshObs.dir, sharedObs.dir, false); d != "" {
		return fmt.Errorf("snapshots written through shared Configs differ from those written through fresh Configs with the same options (fresh -> shared): %s", d)
	}
	if c.RmDirAt > 0 {
		alone, err := runC12From(c, true, c.RmDirAt-1)
		if err != nil {
			return fmt.Errorf("calls %d.. alone: %v", c.RmDirAt, err)
		}
		for i := range alone.outcomes {
			k := c.RmDirAt - 1 + i
			if sharedObs.outcomes[k] != alone.outcomes[i] {
				return fmt.Errorf("call %d (%s via %s) after the earlier calls (directory removed in between, or made by a test whose name differs in case only): outcome %s, but %s in a process that makes only the calls from %d on (what a call does depends on the calls made earlier)", k+1, c.Calls[k].Call.API, c.Calls[k].Via, sharedObs.outcomes[k], alone.outcomes[i], c.RmDirAt)
			}
		}
		if d := diffDirs(alone.dir, sharedObs.dir, false); d != "" && !c.KeepDir {
			return fmt.Errorf("after the snapshot directory was removed before call %d, the directory differs from the one of a process that makes only the calls from %d on (alone -> after removal): %s", c.RmDirAt, c.RmDirAt, d)
		}
	}
	return nil
}

func classifyC12(c c12Case) ([]string, bool) {
	var cls []string
	apis := map[string]bool{}
	sjsonSeen := false
	nt := false
	for _, cc := range c.Calls {
		apis[cc.Call.API] = true
		if sjsonSeen && cc.Call.API != "sjson" && c.Spec.Ext == "" && cc.Via != "B" {
			cls = append(cls, "call_after_standalone_json_no_ext")
			nt = true
		}
		if cc.Call.API == "sjson" && cc.Via != "B" {
			sjsonSeen = true
		}
		cls = append(cls, "via_"+cc.Via)
	}
	if len(apis) >= 3 {
		cls = append(cls, "three_or_more_apis")
		nt = true
	}
	if c.RmDirAt > 0 && !c.KeepDir {
		cls = append(cls, "snapshot_dir_removed_between_calls")
		nt = true
	}
	if c.KeepDir {
		cls = append(cls, "earlier_test_with_a_name_differing_in_case")
		nt = true
	}
	if c.Spec.JSON != nil && c.Over.JSON != nil {
		cls = append(cls, "json_option_overridden_in_b")
		nt = true
	}
	return vhUniq(cls), nt
}

func TestC12_ConfigImmutable(t *testing.T) {
	prop[c12Case]{property: "C12", gen: genC12, check: checkC12, classify: classifyC12}.run(t)
}

// ---- race clause: one shared Config used from several goroutines (run with -race) --------------------------

type c12RaceCase struct {
	Spec  CfgSpec  `json:"options"`
	Tests [][]Call `json:"goroutines"` // per goroutine (= one test) its calls
}

func genC12Race(t *rapid.T) c12RaceCase {
	col := getCollector("C12", "TestC12Race_SharedConfig")
	c := c12RaceCase{Spec: genOptSpec(t, "a")}
	if rapid.Bool().Draw(t, "noext") {
		c.Spec.Ext = ""
	}
	o := textOpts{maxLines: 2}
	for g := rapid.IntRange(2, 4).Draw(t, "ngoroutines"); g > 0; g-- {
		var calls []Call
		for i := rapid.IntRange(1, 5).Draw(t, "ncalls"); i > 0; i-- {
			api := rapid.SampledFrom([]string{"snap", "json", "yaml", "ssnap", "sjson", "sjson"}).Draw(t, "api")
			call := genAnyCall(t, api, o, col)
			if (api == "snap" || api == "ssnap") && hasTrailingCR(call.snapText()) {
				call = Call{API: api, Vals: []Val{strVal("plain")}}
			}
			calls = append(calls, call)
		}
		c.Tests = append(c.Tests, calls)
	}
	return c
}

// checkC12Race only drives the code; the verdict comes from the race detector (the binary is built with -race).
func checkC12Race(c c12RaceCase) error {
	root := scratchDir()
	defer os.RemoveAll(root)
	newProcess(Mode{})
	spec := c.Spec
	spec.Filename = "" // standalone patterns per test; multi-entry file shared
	cfg := spec.build(root)
	var wg sync.WaitGroup
	start := make(chan struct{})
	for i, calls := range c.Tests {
		wg.Add(1)
		go func(i int, calls []Call) {
			defer wg.Done()
			<-start
			ft := newFakeT(fmt.Sprintf("TestG%d", i))
			for _, call := range calls {
				call.invoke(cfg, ft)
			}
			ft.finish()
		}(i, calls)
	}
	close(start)
	wg.Wait()
	return nil
}

func classifyC12Race(c c12RaceCase) ([]string, bool) {
	apis := map[string]bool{}
	for _, calls := range c.Tests {
		for _, call := range calls {
			apis[call.API] = true
		}
	}
	cls := []string{fmt.Sprintf("goroutines_%d", len(c.Tests))}
	if apis["sjson"] && len(apis) >= 2 && c.Spec.Ext == "" {
		cls = append(cls, "standalone_json_mixed_no_ext")
	}
	return cls, len(apis) >= 2
}

func TestC12Race_SharedConfig(t *testing.T) {
	prop[c12RaceCase]{property: "C12", gen: genC12Race, check: checkC12Race, classify: classifyC12Race}.run(t)
}

// ---- C06 race clause: concurrent Match*, Skip* and one shared Config, one shared file ------------------------

type c06RaceCase struct {
	Spec  CfgSpec  `json:"options"`
	Tests [][]Call `json:"goroutines"`
	Skips []string `json:"skips"` // per goroutine: "" or the Skip* kind called after its calls
	Pre   bool     `json:"prerecorded"`
	Mode  Mode     `json:"mode"`
	// SharedMatchers: every JSON / YAML call of every goroutine passes the SAME matcher values (a package-level
	// `var volatile = match.Any(...).ErrOnMissingPath(false)` listing JSON-style and YAML-style paths)
	SharedMatchers bool `json:"shared_matcher_values,omitempty"`
}

func genC06Race(t *rapid.T) c06RaceCase {
	r := genC12Race(t)
	c := c06RaceCase{Spec: r.Spec, Tests: r.Tests, Pre: rapid.Bool().Draw(t, "pre")}
	c.Spec.Update = nil
	for range c.Tests {
		c.Skips = append(c.Skips, rapid.SampledFrom([]string{"", "", "Skip", "Skipf", "SkipNow"}).Draw(t, "skip"))
	}
	if rapid.Bool().Draw(t, "updatemode") {
		c.Mode = Mode{Update: "true"}
	}
	c.SharedMatchers = rapid.IntRange(0, 2).Draw(t, "sharedmatchers") == 0
	return c
}

func checkC06Race(c c06RaceCase) error {
	root := scratchDir()
	defer os.RemoveAll(root)
	spec := c.Spec
	spec.Filename = ""
	var shared []bothMatcher
	if c.SharedMatchers {
		rt := &matcherRT{}
		shared = []bothMatcher{
			rt.build(MatcherSpec{Kind: "any", Paths: []string{"$.metadata.uid", "metadata.uid", "$.a", "a", "$.k1", "k1"}, ErrMissing: vhBoolp(false)}),
			rt.build(MatcherSpec{Kind: "type", TypeName: "any", Paths: []string{"$.name", "name", "$.id", "id"}, ErrMissing: vhBoolp(false)}),
		}
	}
	run := func(mode Mode, variant int) {
		newProcess(mode)
		cfg := spec.build(root)
		var wg sync.WaitGroup
		start := make(chan struct{})
		for i, calls := range c.Tests {
			wg.Add(1)
			go func(i int, calls []Call) {
				defer wg.Done()
				<-start
				ft := newFakeT(fmt.Sprintf("TestG%d", i))
				for _, call := range calls {
					if variant == 1 && (call.API == "snap" || call.API == "ssnap") {
						call.Vals = []Val{strVal("changed value")} // forces mismatches / updates in the second process
					}
					if shared != nil && (call.API == "json" || call.API == "sjson" || call.API == "yaml") && len(call.Matchers) == 0 {
						call.prebuilt = shared
					}
					call.invoke(cfg, ft)
				}
				switch c.Skips[i] {
				case "Skip":
					callSkip(func() { Skip(ft, "x") })
				case "Skipf":
					callSkip(func() { Skipf(ft, "x %d", i) })
				case "SkipNow":
					callSkip(func() { SkipNow(ft) })
				}
				ft.finish()
			}(i, calls)
		}
		close(start)
		wg.Wait()
	}
	if c.Pre {
		run(Mode{}, 0)
	}
	run(c.Mode, 1)
	return nil
}

func TestC06Race_SharedFile(t *testing.T) {
	prop[c06RaceCase]{property: "C06", gen: genC06Race, check: checkC06Race,
		classify: func(c c06RaceCase) ([]string, bool) {
			cls, nt := classifyC12Race(c12RaceCase{Spec: c.Spec, Tests: c.Tests})
			if c.SharedMatchers {
				cls = append(cls, "shared_matcher_values")
			}
			return cls, nt
		}}.run(t)
}
