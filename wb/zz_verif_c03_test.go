//go:build verif

// C03 Entries are stably addressed and isolated from one another (stateful, model-based).
// The history machinery here is shared with C20.
package snaps

import (
	"fmt"
	"os"
	"path/filepath"
	"sort"
	"strings"
	"testing"

	"pgregory.net/rapid"
)

// Slot of a test's program: the kind of call made at a given position (fixed across executions).
type ProgSlot struct {
	API string `json:"api"` // snap | json | yaml
	Cfg int    `json:"cfg"`
}

type HistTest struct {
	Name string     `json:"name"`
	Prog []ProgSlot `json:"prog"`
}

type ExecCall struct {
	Call   Call   `json:"call"`
	UpdOpt *bool  `json:"update_option,omitempty"`
	Fail   string `json:"fail,omitempty"` // "" | invalid | matcher : the call is built to fail before the comparison
	Skip   string `json:"skip,omitempty"` // Skip | Skipf | SkipNow : instead of a Match* call the test calls snaps.Skip* (always its last step)
	// Spelling: this call goes through a Config whose directory is spelled differently (trailing | dot | dotdot | double):
	// the same file, hence the same sequence of ordinals
	Spelling string `json:"dir_spelling,omitempty"`
	// NoValuesBefore: right before this call the test calls MatchSnapshot(t) with NO values on the same Config (a table case
	// whose value list is empty): a warning is logged, nothing else happens - in particular no ordinal is taken
	NoValuesBefore bool `json:"matchsnapshot_without_values_before,omitempty"`
}

type Exec struct {
	Test  int        `json:"test"`
	Calls []ExecCall `json:"calls"`
}

// Step of a process schedule: a call of execution Exec, or the end of that execution.
type Step struct {
	Exec   int  `json:"exec"`
	Finish bool `json:"finish,omitempty"`
}

type Proc struct {
	Mode  Mode   `json:"mode"`
	Execs []Exec `json:"execs"`
	Steps []Step `json:"steps"` // interleaving of the executions' calls (sequentially consistent)
}

type histCase struct {
	Cfgs    []CfgSpec  `json:"cfgs"`
	Extra   [][]Entry  `json:"extra_initial"` // pre-existing entries that are not slots of any program
	Tests   []HistTest `json:"tests"`
	Procs   []Proc     `json:"procs"`
	Blocked bool       `json:"blocked_dir,omitempty"` // C20: one more config whose snapshot file can never be written
	// CRLFBefore > 0: before process number CRLFBefore-1 starts, every snapshot file is converted to CRLF line ends (the tree was
	// checked out again with core.autocrlf): the files hold the same entries for every reader of the format
	CRLFBefore int `json:"crlf_before_process_plus1,omitempty"`
	BlockKind string   `json:"block_kind,omitempty"`  // "" : the directory path is occupied by a regular file | file_is_dir : the snapshot file path is a directory | name_too_long : file name beyond NAME_MAX | read_only_dir : the directory exists but is not writable for the process
}

// vkey: identity of the stored text of a call (equal keys <=> the code must treat the values as equal).
func vkeyOf(c Call) string {
	switch c.API {
	case "snap":
		return "s:" + refEscape(c.snapText())
	case "json":
		n, err := parseJNode(string(c.Doc))
		if err != nil {
			return "j-invalid:" + string(c.Doc)
		}
		return "j:" + n.Canon()
	case "yaml":
		return "y:" + refEscape(string(c.Doc))
	}
	return "?"
}

func genSlotCall(t *rapid.T, s ProgSlot, o textOpts, col *collector) Call {
	switch s.API {
	case "json":
		n := genJRoot(t, 2)
		form := rapid.SampledFrom([]string{"string", "bytes", "value"}).Draw(t, "form")
		if n.K == "str" {
			form = "string"
		}
		return Call{API: "json", Cfg: s.Cfg, Doc: BS(n.Compact()), Form: form}
	case "yaml":
		return Call{API: "yaml", Cfg: s.Cfg, Doc: BS(genValidYAML(t)), Form: rapid.SampledFrom([]string{"string", "bytes"}).Draw(t, "form")}
	default:
		if rapid.IntRange(0, 14).Draw(t, "big") == 0 {
			return Call{API: "snap", Cfg: s.Cfg, Vals: []Val{strVal(bigText(t))}}
		}
		return Call{API: "snap", Cfg: s.Cfg, Vals: []Val{genVal(t, o, col)}}
	}
}

// small value pools make "same value again" (passed) and "value changed" (updated/failed) both frequent
func genSlotCallPooled(t *rapid.T, s ProgSlot, o textOpts, col *collector) Call {
	if rapid.IntRange(0, 2).Draw(t, "pooled") > 0 {
		i := rapid.IntRange(0, 2).Draw(t, "poolidx")
		switch s.API {
		case "json":
			return Call{API: "json", Cfg: s.Cfg, Doc: BS([]string{`{"a":1}`, `{"a":2,"b":[1,2]}`, `[1,"x"]`}[i]), Form: "string"}
		case "yaml":
			return Call{API: "yaml", Cfg: s.Cfg, Doc: BS([]string{"a: 1\n", "a: 2\n---\nb: 3\n", "[TestA - 2]\n"}[i]), Form: "string"}
		default:
			return Call{API: "snap", Cfg: s.Cfg, Vals: []Val{strVal([]string{"v1", "v2\n---\nx", "[TestA - 2]\nbody"}[i])}}
		}
	}
	return genSlotCall(t, s, o, col)
}

func genFailingCall(t *rapid.T, s ProgSlot) (Call, string) {
	switch s.API {
	case "json":
		if rapid.Bool().Draw(t, "failkind") {
			return Call{API: "json", Cfg: s.Cfg, Doc: BS(rapid.SampledFrom([]string{`{"a":`, `{'a':1}`, ``, `[1,]`, `nul`}).Draw(t, "bad")), Form: rapid.SampledFrom([]string{"string", "bytes"}).Draw(t, "form")}, "invalid"
		}
		return Call{API: "json", Cfg: s.Cfg, Doc: `{"a":1}`, Form: "string", Matchers: []MatcherSpec{{Kind: "any", Paths: []string{"missing.path"}}}}, "matcher"
	case "yaml":
		if rapid.Bool().Draw(t, "failkind") {
			return Call{API: "yaml", Cfg: s.Cfg, Doc: BS(rapid.SampledFrom([]string{"a: [1, 2", "a: 'unterminated", "a: b: c"}).Draw(t, "bad")), Form: "string"}, "invalid"
		}
		return Call{API: "yaml", Cfg: s.Cfg, Doc: "a: 1\n", Form: "string", Matchers: []MatcherSpec{{Kind: "any", Paths: []string{"$.missing"}}}}, "matcher"
	}
	return Call{}, ""
}

type histOpts struct {
	tests      int
	maxProcs   int
	interleave bool
	failing    bool
	updOptions bool
	ci         bool
	uniqueExec bool // every process executes a test at most once (so that -count=1 describes it)
	skips      bool // executions may end with a snaps.Skip* call
	blocked    bool // extra calls through a config whose directory cannot be created
	crlf       bool // the files may be converted to CRLF line ends between two processes
	otherRunners bool // tests of other runners (Benchmark…, Fuzz…): only for histories without Clean (its headers are `[Test…`)
}

func genHistory(t *rapid.T, col *collector, ho histOpts) histCase {
	ntests := rapid.IntRange(1, ho.tests).Draw(t, "ntests")
	names := genNamePool(t, ntests+1)
	if ho.otherRunners {
		names = withOtherRunners(t, names)
	}
	o := textOpts{escapeToken: true, headerLike: true, names: names, maxLines: 4}
	c := histCase{Cfgs: []CfgSpec{{Dir: "snaps", Filename: "f"}}}
	if rapid.IntRange(0, 2).Draw(t, "twofiles") == 0 {
		c.Cfgs = append(c.Cfgs, CfgSpec{Dir: "snaps", Filename: "g"})
	}
	for i := 0; i < ntests; i++ {
		n := rapid.IntRange(1, 6).Draw(t, "proglen")
		if rapid.IntRange(0, 7).Draw(t, "long") == 0 {
			n = rapid.IntRange(10, 13).Draw(t, "proglen10")
		}
		ht := HistTest{Name: names[i]}
		for k := 0; k < n; k++ {
			ht.Prog = append(ht.Prog, ProgSlot{
				API: rapid.SampledFrom([]string{"snap", "snap", "snap", "json", "yaml"}).Draw(t, "slotapi"),
				Cfg: rapid.IntRange(0, len(c.Cfgs)-1).Draw(t, "slotcfg"),
			})
		}
		c.Tests = append(c.Tests, ht)
	}
	// extra pre-existing entries: ids that no program slot can address (foreign test, or ordinal beyond the program)
	for range c.Cfgs {
		var es []Entry
		seen := map[string]bool{}
		for i := rapid.IntRange(0, 4).Draw(t, "nextra"); i > 0; i-- {
			var id string
			if rapid.Bool().Draw(t, "foreign") {
				id = entryID(names[ntests], rapid.IntRange(1, 12).Draw(t, "eord"))
			} else {
				ti := rapid.IntRange(0, ntests-1).Draw(t, "etest")
				id = entryID(names[ti], len(c.Tests[ti].Prog)+rapid.IntRange(1, 3).Draw(t, "beyond"))
			}
			if seen[id] {
				continue
			}
			seen[id] = true
			body := refEscape(genText(t, o))
			if hasTrailingCR(body) {
				body = "x"
			}
			es = append(es, Entry{ID: BS(id), Body: BS(body)})
		}
		c.Extra = append(c.Extra, es)
	}
	if ho.blocked && rapid.IntRange(0, 2).Draw(t, "blocked") == 0 {
		c.Blocked = true
		c.BlockKind = rapid.SampledFrom([]string{"", "file_is_dir", "name_too_long", "read_only_dir"}).Draw(t, "blockkind")
	}
	nprocs := rapid.IntRange(1, ho.maxProcs).Draw(t, "nprocs")
	for p := 0; p < nprocs; p++ {
		pr := Proc{}
		switch m := rapid.IntRange(0, 9).Draw(t, "pmode"); {
		case m < 4:
		case m < 7:
			pr.Mode = Mode{Update: "true"}
		case m < 8:
			pr.Mode = Mode{Update: rapid.SampledFrom([]string{"clean", "1", "false"}).Draw(t, "oupd")}
		default:
			if ho.ci {
				pr.Mode = Mode{CI: true, Update: rapid.SampledFrom([]string{"", "true"}).Draw(t, "ciupd")}
			}
		}
		nex := rapid.IntRange(1, 4).Draw(t, "nexecs")
		allSkip := ho.skips && rapid.IntRange(0, 9).Draw(t, "allskip") == 0 // a process in which every test skips before any Match* call
		usedTests := map[int]bool{}
		for e := 0; e < nex; e++ {
			ti := rapid.IntRange(0, ntests-1).Draw(t, "etest")
			if ho.uniqueExec {
				if usedTests[ti] {
					continue
				}
				usedTests[ti] = true
			}
			prog := c.Tests[ti].Prog
			ncalls := len(prog)
			if rapid.IntRange(0, 3).Draw(t, "partial") == 0 {
				ncalls = rapid.IntRange(0, len(prog)).Draw(t, "ncalls")
			}
			ex := Exec{Test: ti}
			for k := 0; k < ncalls; k++ {
				ec := ExecCall{}
				if ho.failing && prog[k].API != "snap" && rapid.IntRange(0, 5).Draw(t, "failing") == 0 {
					ec.Call, ec.Fail = genFailingCall(t, prog[k])
				} else {
					ec.Call = genSlotCallPooled(t, prog[k], o, col)
				}
				if ho.failing && rapid.IntRange(0, 11).Draw(t, "novalues") == 0 {
					ec.NoValuesBefore = true
				}
				if ho.crlf && rapid.IntRange(0, 7).Draw(t, "spelling") == 0 {
					ec.Spelling = rapid.SampledFrom([]string{"trailing", "dot", "dotdot", "double"}).Draw(t, "spellingkind")
				}
				if ho.updOptions {
					switch rapid.IntRange(0, 5).Draw(t, "updopt") {
					case 0:
						ec.UpdOpt = vhBoolp(true)
					case 1:
						ec.UpdOpt = vhBoolp(false)
					}
				}
				ex.Calls = append(ex.Calls, ec)
				if ho.blocked && c.Blocked && rapid.IntRange(0, 7).Draw(t, "blockedcall") == 0 {
					bc := genSlotCall(t, ProgSlot{API: rapid.SampledFrom([]string{"snap", "json", "yaml"}).Draw(t, "bapi"), Cfg: len(c.Cfgs)}, o, col)
					ex.Calls = append(ex.Calls, ExecCall{Call: bc})
				}
			}
			if allSkip {
				ex.Calls = []ExecCall{{Skip: rapid.SampledFrom([]string{"Skip", "Skipf", "SkipNow"}).Draw(t, "skipkind0")}}
			} else if ho.skips && rapid.IntRange(0, 4).Draw(t, "skip") == 0 {
				cut := rapid.IntRange(0, len(ex.Calls)).Draw(t, "skipat")
				ex.Calls = append(ex.Calls[:cut:cut], ExecCall{Skip: rapid.SampledFrom([]string{"Skip", "Skipf", "SkipNow"}).Draw(t, "skipkind")})
			}
			pr.Execs = append(pr.Execs, ex)
			if ho.skips && len(ex.Calls) == 1 && ex.Calls[0].Skip != "" && rapid.Bool().Draw(t, "skiptwice") {
				// a test that skips before any Match* call may run again (as under -count=2): the registry is unaffected
				pr.Execs = append(pr.Execs, Exec{Test: ex.Test, Calls: []ExecCall{{Skip: ex.Calls[0].Skip}}})
			}
		}
		pr.Steps = genSchedule(t, c, pr.Execs, ho.interleave && rapid.Bool().Draw(t, "interleave"))
		c.Procs = append(c.Procs, pr)
	}
	if ho.crlf && rapid.IntRange(0, 4).Draw(t, "crlf") == 0 {
		c.CRLFBefore = 1 + rapid.IntRange(0, len(c.Procs)-1).Draw(t, "crlfbefore")
	}
	return c
}

// genSchedule: an interleaving in which no two live executions have the same test name
// (the real runner never runs one test twice at the same time).
func genSchedule(t *rapid.T, c histCase, execs []Exec, interleave bool) []Step {
	var steps []Step
	if !interleave {
		for e, ex := range execs {
			for range ex.Calls {
				steps = append(steps, Step{Exec: e})
			}
			steps = append(steps, Step{Exec: e, Finish: true})
		}
		return steps
	}
	next := make([]int, len(execs)) // next call index; len(Calls)+1 = finished
	started := make([]bool, len(execs))
	live := map[int]bool{} // test index -> live
	remaining := len(execs)
	for remaining > 0 {
		var cand []int
		for e := range execs {
			if next[e] > len(execs[e].Calls) {
				continue
			}
			if !started[e] && live[execs[e].Test] {
				continue
			}
			cand = append(cand, e)
		}
		e := cand[rapid.IntRange(0, len(cand)-1).Draw(t, "sched")]
		if !started[e] {
			started[e] = true
			live[execs[e].Test] = true
		}
		if next[e] == len(execs[e].Calls) {
			steps = append(steps, Step{Exec: e, Finish: true})
			live[execs[e].Test] = false
			remaining--
		} else {
			steps = append(steps, Step{Exec: e})
		}
		next[e]++
	}
	return steps
}

// ---- the model ------------------------------------------------------------------------------------

type histModel struct {
	root  string
	files []string            // per cfg: absolute path
	slots []map[string]string // per cfg: id -> vkey of the value the slot holds ("raw:"+body for extra entries)
	order [][]Entry           // per cfg: last parsed content
}

func predictOutcome(m Mode, upd *bool, present, equal bool, fail string) string {
	if fail != "" {
		return oFailed
	}
	if !present {
		if !m.CI && (upd == nil || *upd) {
			return oAdded
		}
		return oFailed
	}
	if equal {
		return oPassed
	}
	if !m.CI && ((upd != nil && *upd) || (upd == nil && m.Update == "true")) {
		return oUpdated
	}
	return oFailed
}

type histHooks struct {
	// afterCall is invoked after every call with the predicted and observed outcome (ci = -1: blocked directory).
	afterCall func(pi int, test string, ci int, id string, ec ExecCall, want, got string, r callResult)
	// afterSkip is invoked after a snaps.Skip* call.
	afterSkip func(pi int, test string, logs []string)
	// afterProc is invoked at the end of each process (before the next newProcess).
	afterProc func(pi int, p Proc, root string) error
}

// runHistory executes the history against the real code and compares every step with the model.
func runHistory(c histCase, hooks histHooks) error {
	root := scratchDir()
	defer os.RemoveAll(root)
	m := &histModel{root: root}
	for i, cfg := range c.Cfgs {
		p := filepath.Join(root, cfg.multiPath())
		m.files = append(m.files, p)
		m.slots = append(m.slots, map[string]string{})
		var es []Entry
		if i < len(c.Extra) {
			es = c.Extra[i]
		}
		if len(es) > 0 {
			os.MkdirAll(filepath.Dir(p), 0o755)
			os.WriteFile(p, []byte(refRender(es)), 0o644)
			for _, e := range es {
				m.slots[i][string(e.ID)] = "raw:" + string(e.Body)
			}
		}
		m.order = append(m.order, append([]Entry{}, es...))
	}
	blockedSpec := CfgSpec{Dir: "blocked/sub", Filename: "h"}
	if c.Blocked {
		if c.BlockKind == "file_is_dir" {
			blockedSpec = CfgSpec{Dir: "blockeddir", Filename: "h"}
			os.MkdirAll(filepath.Join(root, blockedSpec.multiPath(), "inner"), 0o755)
		} else if c.BlockKind == "read_only_dir" {
			// the snapshot directory exists but the process may not write into it (the call runs with an unprivileged
			// file-system uid): nothing can be created there
			blockedSpec = CfgSpec{Dir: "readonlydir", Filename: "h"}
			os.MkdirAll(filepath.Join(root, "readonlydir"), 0o755)
		} else if c.BlockKind == "name_too_long" {
			// a file name beyond NAME_MAX: the directory can be created, the file can neither be read nor written
			blockedSpec = CfgSpec{Dir: "longnames", Filename: strings.Repeat("n", 300)}
		} else {
			os.WriteFile(filepath.Join(root, "blocked"), []byte("a regular file where a directory is needed"), 0o644)
		}
	}

	crlf := false
	lf := func(data string) string {
		if crlf {
			return strings.ReplaceAll(data, "\r\n", "\n")
		}
		return data
	}
	for pi, pr := range c.Procs {
		if c.CRLFBefore > 0 && pi == c.CRLFBefore-1 {
			clean := true
			for _, f := range m.files {
				if strings.Contains(vhReadFile(f), "\r") {
					clean = false
				}
			}
			if clean {
				for _, f := range m.files {
					if data := vhReadFile(f); data != "" {
						os.WriteFile(f, []byte(strings.ReplaceAll(data, "\n", "\r\n")), 0o644)
						crlf = true
					}
				}
			}
		}
		newProcess(pr.Mode)
		// configs per (cfg, update option)
		cfgFor := func(ci int, upd *bool, spelling ...string) *Config {
			s := c.Cfgs[ci]
			s.Update = upd
			if len(spelling) > 0 {
				s.DirStyle = spelling[0]
			}
			return s.build(root)
		}
		fts := make([]*fakeT, len(pr.Execs))
		next := make([]int, len(pr.Execs))
		counts := make([]map[int]int, len(pr.Execs)) // per exec: cfg -> calls so far
		for _, st := range pr.Steps {
			ex := pr.Execs[st.Exec]
			name := c.Tests[ex.Test].Name
			if fts[st.Exec] == nil {
				fts[st.Exec] = newFakeT(name)
				counts[st.Exec] = map[int]int{}
			}
			if st.Finish {
				fts[st.Exec].finish()
				continue
			}
			ec := ex.Calls[next[st.Exec]]
			next[st.Exec]++
			if ec.Skip != "" {
				switch ec.Skip {
				case "Skipf":
					callSkip(func() { Skipf(fts[st.Exec], "skip %s", name) })
				case "SkipNow":
					callSkip(func() { SkipNow(fts[st.Exec]) })
				default:
					callSkip(func() { Skip(fts[st.Exec], "skip") })
				}
				errs, logs := fts[st.Exec].drain()
				if len(errs) != 0 {
					return fmt.Errorf("process %d %s: snaps.%s reported errors %q", pi, name, ec.Skip, vhClipAll(errs))
				}
				if hooks.afterSkip != nil {
					hooks.afterSkip(pi, name, logs)
				}
				continue
			}
			ci := ec.Call.Cfg
			if ci >= len(c.Cfgs) {
				// the blocked config (C20): directory cannot be created, the call must fail and touch nothing
				spec := blockedSpec
				spec.Update = ec.UpdOpt
				undo := func() {}
				if c.BlockKind == "read_only_dir" {
					undo = makeReadOnly(filepath.Join(root, "readonlydir"))
				}
				r := ec.Call.invoke(spec.build(root), fts[st.Exec])
				undo()
				got, err := outcomeOf(r)
				if err != nil {
					return fmt.Errorf("process %d %s (blocked dir): %v", pi, name, err)
				}
				if got != oFailed {
					return fmt.Errorf("process %d %s: call into a directory that cannot be created ended as %q", pi, name, got)
				}
				if hooks.afterCall != nil {
					hooks.afterCall(pi, name, -1, "", ec, oFailed, got, r)
				}
				continue
			}
			if ec.NoValuesBefore {
				r0 := Call{API: "snap"}.invoke(cfgFor(ci, ec.UpdOpt, ec.Spelling), fts[st.Exec])
				if len(r0.Errors) != 0 || len(r0.Events) != 0 {
					return fmt.Errorf("process %d %s: MatchSnapshot without values reported errors %q / events %v", pi, name, vhClipAll(r0.Errors), r0.Events)
				}
			}
			counts[st.Exec][ci]++
			k := counts[st.Exec][ci]
			id := entryID(name, k)
			prevKey, present := m.slots[ci][id]
			newKey := vkeyOf(ec.Call)
			want := predictOutcome(pr.Mode, ec.UpdOpt, present, prevKey == newKey, ec.Fail)

			r := ec.Call.invoke(cfgFor(ci, ec.UpdOpt, ec.Spelling), fts[st.Exec])
			got, err := outcomeOf(r)
			if err != nil {
				return fmt.Errorf("process %d %s call #%d on %s (slot %q): %v", pi, name, k, filepath.Base(m.files[ci]), id, err)
			}
			if hooks.afterCall != nil {
				hooks.afterCall(pi, name, ci, id, ec, want, got, r)
			}
			if got != want {
				return fmt.Errorf("process %d (mode %+v) %s call #%d on %s must address slot %q: model predicts %s, observed %s (errors=%q logs=%q); slot held %q, call value %q",
					pi, pr.Mode, name, k, filepath.Base(m.files[ci]), id, want, got, vhClipAll(r.Errors), vhClipAll(r.Logs), vhClip(prevKey), vhClip(newKey))
			}
			// files: the addressed file changes per outcome, every other file not at all
			for fi := range m.files {
				data := lf(vhReadFile(m.files[fi]))
				es, perr := refParse(data)
				if perr != nil {
					return fmt.Errorf("process %d %s call #%d (%s): file %s is no longer well formed: %v; content %q", pi, name, k, got, filepath.Base(m.files[fi]), perr, vhClip(data))
				}
				old := m.order[fi]
				if fi != ci || got == oPassed || got == oFailed {
					if !entriesEqual(old, es) {
						return fmt.Errorf("process %d %s call #%d (%s on %s): entries of %s changed: before %s | after %s", pi, name, k, got, filepath.Base(m.files[ci]), filepath.Base(m.files[fi]), describeEntries(old), describeEntries(es))
					}
					continue
				}
				switch got {
				case oAdded:
					idx := findEntry(es, id)
					if idx < 0 {
						return fmt.Errorf("process %d %s call #%d: 'added' but no entry %q in the file: %s", pi, name, k, id, describeEntries(es))
					}
					rest := append(append([]Entry{}, es[:idx]...), es[idx+1:]...)
					if !entriesEqual(old, rest) {
						return fmt.Errorf("process %d %s call #%d: adding %q changed, dropped or reordered other entries: before %s | after %s", pi, name, k, id, describeEntries(old), describeEntries(es))
					}
					if err := checkStoredBody(ec.Call, string(es[idx].Body)); err != nil {
						return fmt.Errorf("process %d %s call #%d: added entry %q: %v", pi, name, k, id, err)
					}
				case oUpdated:
					if len(es) != len(old) {
						return fmt.Errorf("process %d %s call #%d: update of %q changed the number of entries: before %s | after %s", pi, name, k, id, describeEntries(old), describeEntries(es))
					}
					for i := range es {
						if es[i].ID != old[i].ID {
							return fmt.Errorf("process %d %s call #%d: update of %q reordered entries: before %s | after %s", pi, name, k, id, describeEntries(old), describeEntries(es))
						}
						if string(es[i].ID) == id {
							if err := checkStoredBody(ec.Call, string(es[i].Body)); err != nil {
								return fmt.Errorf("process %d %s call #%d: updated entry %q: %v", pi, name, k, id, err)
							}
							continue
						}
						if es[i].Body != old[i].Body {
							return fmt.Errorf("process %d %s call #%d: update of %q changed entry %q: %q -> %q", pi, name, k, id, es[i].ID, vhClip(string(old[i].Body)), vhClip(string(es[i].Body)))
						}
					}
				}
				m.order[fi] = es
			}
			if got == oAdded || got == oUpdated {
				m.slots[ci][id] = newKey
			}
		}
		if hooks.afterProc != nil {
			if err := hooks.afterProc(pi, pr, root); err != nil {
				return err
			}
			// afterProc may run Clean: refresh the model's view of the files
			for fi := range m.files {
				es, perr := refParse(lf(vhReadFile(m.files[fi])))
				if perr != nil {
					return fmt.Errorf("process %d: after end-of-process hook file %s is not well formed: %v", pi, filepath.Base(m.files[fi]), perr)
				}
				m.order[fi] = es
				keep := map[string]string{}
				for _, e := range es {
					if v, ok := m.slots[fi][string(e.ID)]; ok {
						keep[string(e.ID)] = v
					}
				}
				m.slots[fi] = keep
			}
		}
	}
	return nil
}

// checkStoredBody: what the file must hold for the call's value.
func checkStoredBody(c Call, body string) error {
	switch c.API {
	case "snap":
		if want := refEscape(c.snapText()); body != want {
			return fmt.Errorf("stored body %q, want the escaped formatted value %q", vhClip(body), vhClip(want))
		}
	case "yaml":
		if len(c.Matchers) == 0 && c.Form != "value" {
			if want := refEscape(string(c.Doc)); body != want {
				return fmt.Errorf("stored body %q, want the escaped document %q", vhClip(body), vhClip(want))
			}
		}
	case "json":
		if len(c.Matchers) == 0 {
			got, err := parseJNode(body)
			if err != nil {
				return fmt.Errorf("stored body is not valid JSON: %v: %q", err, vhClip(body))
			}
			want, _ := parseJNode(string(c.Doc))
			if got.Canon() != want.Canon() {
				return fmt.Errorf("stored JSON %q is not the value of %q", vhClip(body), vhClip(string(c.Doc)))
			}
		}
	}
	return nil
}

func classifyHistory(c histCase) ([]string, bool) {
	for _, pr := range c.Procs {
		for _, ex := range pr.Execs {
			for _, ec := range ex.Calls {
				if ec.Spelling != "" {
					cc := c
					cc.Procs = nil
					for _, p2 := range c.Procs {
						p3 := p2
						p3.Execs = nil
						for _, e2 := range p2.Execs {
							e3 := e2
							e3.Calls = nil
							for _, c2 := range e2.Calls {
								c2.Spelling = ""
								e3.Calls = append(e3.Calls, c2)
							}
							p3.Execs = append(p3.Execs, e3)
						}
						cc.Procs = append(cc.Procs, p3)
					}
					cls0, nt0 := classifyHistory(cc)
					return append(cls0, "one_file_through_differently_spelled_configs"), nt0
				}
			}
		}
	}
	if c.CRLFBefore > 0 {
		cc := c
		cc.CRLFBefore = 0
		cls0, nt0 := classifyHistory(cc)
		return append(cls0, "files_converted_to_crlf_between_processes"), nt0
	}
	var cls []string
	names := []string{}
	for _, ht := range c.Tests {
		names = append(names, ht.Name)
		if len(ht.Prog) >= 10 {
			cls = append(cls, "ten_or_more_calls")
		}
	}
	sort.Strings(names)
	for i := range names {
		for j := range names {
			if i != j && strings.HasPrefix(names[j], names[i]) {
				cls = append(cls, "prefix_related_names")
			}
		}
	}
	executed := map[int]int{}
	for _, p := range c.Procs {
		perProc := map[int]int{}
		for _, e := range p.Execs {
			executed[e.Test]++
			perProc[e.Test]++
			failedBefore := false
			for _, ec := range e.Calls {
				if failedBefore {
					cls = append(cls, "calls_after_a_failing_call")
				}
				if ec.Fail != "" {
					failedBefore = true
				}
				if ec.UpdOpt != nil {
					cls = append(cls, "per_call_update_option")
				}
				if ec.NoValuesBefore {
					cls = append(cls, "matchsnapshot_without_values_before_a_call")
				}
				for _, f := range textFeatures(callText(ec.Call)) {
					if f == "header_like_line" {
						cls = append(cls, "header_like_body")
					}
				}
			}
		}
		for _, n := range perProc {
			if n > 1 {
				cls = append(cls, "reexecution_in_one_process")
			}
		}
		seq := true
		cur := -1
		done := map[int]bool{}
		for _, s := range p.Steps {
			if s.Exec != cur {
				if done[s.Exec] {
					seq = false
				}
				if cur >= 0 && !done[cur] {
					seq = false
				}
				cur = s.Exec
			}
			if s.Finish {
				done[s.Exec] = true
			}
		}
		if !seq {
			cls = append(cls, "interleaved_executions")
		}
		if p.Mode.CI {
			cls = append(cls, "ci_process")
		}
		if p.Mode.Update == "true" {
			cls = append(cls, "update_process")
		}
	}
	if len(c.Cfgs) > 1 {
		cls = append(cls, "two_files")
	}
	cls = vhUniq(cls)
	nt := len(c.Tests) >= 2 && len(cls) > 0
	return cls, nt
}

func callText(c Call) string {
	switch c.API {
	case "snap", "ssnap":
		if len(c.Vals) > 0 && c.Vals[0].Kind == "str" {
			return string(c.Vals[0].S)
		}
		return ""
	}
	return string(c.Doc)
}

func genC03(t *rapid.T) histCase {
	col := getCollector("C03", "TestC03_History")
	return genHistory(t, col, histOpts{tests: 4, maxProcs: 3, interleave: true, failing: true, updOptions: true, ci: true, crlf: true, otherRunners: true})
}

func checkC03(c histCase) error { return runHistory(c, histHooks{}) }

func TestC03_History(t *testing.T) {
	prop[histCase]{property: "C03", gen: genC03, check: checkC03, classify: classifyHistory}.run(t)
}
