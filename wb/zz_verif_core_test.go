//go:build verif

// White-box harness core. These files are NOT part of the repository: the driver
// (/verif/check) compiles them into package snaps through `go test -overlay`.
package snaps

import (
	"bytes"
	"flag"
	"fmt"
	"io"
	"os"
	"strconv"
	"sync"

	"github.com/gkampitakis/go-snaps/internal/colors"
)

func init() {
	propInit = func() { colors.NOCOLOR = true }
}

// ---------------------------------------------------------------------------------------------
// fakeT: the testingT handed to go-snaps. Cleanups run at finish() (end of the test execution),
// LIFO, like testing.T.

type fakeT struct {
	mu       sync.Mutex
	name     string
	errors   []string
	logs     []string
	cleanups []func()
	skipped  bool
	failed   bool
	buf      []byte
}

func newFakeT(name string) *fakeT { return &fakeT{name: name} }

// reuse copies doc into the buffer the test keeps for all its documents and returns that buffer's prefix.
func (f *fakeT) reuse(doc string) []byte {
	f.mu.Lock()
	defer f.mu.Unlock()
	if cap(f.buf) < len(doc) {
		f.buf = make([]byte, 0, 2*len(doc)+64)
	}
	f.buf = f.buf[:len(doc)]
	copy(f.buf, doc)
	return f.buf
}

func (f *fakeT) Helper() {}
// Skip, Skipf and SkipNow do not return, like the methods of a real *testing.T (runtime.Goexit): whatever the library
// does after calling them never happens. The harness calls the library's wrappers through callSkip, which absorbs the exit.
type fakeSkipExit struct{}

func (f *fakeT) Skip(a ...any) {
	f.mu.Lock()
	f.skipped = true
	f.mu.Unlock()
	panic(fakeSkipExit{})
}
func (f *fakeT) Skipf(s string, a ...any) { f.Skip() }
func (f *fakeT) SkipNow()                 { f.Skip() }

func callSkip(fn func()) {
	defer func() {
		if r := recover(); r != nil {
			if _, ok := r.(fakeSkipExit); !ok {
				panic(r)
			}
		}
	}()
	fn()
}
func (f *fakeT) Name() string             { return f.name }
func (f *fakeT) Error(a ...any) {
	f.mu.Lock()
	f.errors = append(f.errors, fmt.Sprint(a...))
	f.failed = true
	f.mu.Unlock()
}

// Failed and Skipped: the rest of what a *testing.T answers about itself (code that type-asserts for them finds them).
// A test stays failed once Error was called, whatever the harness drains in between.
func (f *fakeT) Failed() bool {
	f.mu.Lock()
	defer f.mu.Unlock()
	return f.failed
}
func (f *fakeT) Skipped() bool {
	f.mu.Lock()
	defer f.mu.Unlock()
	return f.skipped
}

// plainSkip: the test ends through the testing package's own t.Skip (not through snaps.Skip*).
func (f *fakeT) plainSkip() {
	f.mu.Lock()
	f.skipped = true
	f.mu.Unlock()
}
func (f *fakeT) Log(a ...any) {
	f.mu.Lock()
	f.logs = append(f.logs, fmt.Sprint(a...))
	f.mu.Unlock()
}
func (f *fakeT) Cleanup(fn func()) {
	f.mu.Lock()
	f.cleanups = append(f.cleanups, fn)
	f.mu.Unlock()
}
func (f *fakeT) finish() {
	f.mu.Lock()
	cl := f.cleanups
	f.cleanups = nil
	f.mu.Unlock()
	for i := len(cl) - 1; i >= 0; i-- {
		cl[i]()
	}
}
func (f *fakeT) drain() (e, l []string) {
	f.mu.Lock()
	e, l = f.errors, f.logs
	f.errors, f.logs = nil, nil
	f.mu.Unlock()
	return
}

// ---------------------------------------------------------------------------------------------
// process state

type Mode struct {
	CI     bool   `json:"ci,omitempty"`
	Update string `json:"update_snaps,omitempty"` // value of UPDATE_SNAPS
}

// setMode is the only place that touches shouldClean (see DESIGN §4).
func setMode(m Mode) {
	isCI = m.CI
	updateVAR = m.Update
	shouldClean = m.Update == "true" || m.Update == "clean"
}

// sameProcess: while set, newProcess only sets the mode: the helpers that normally start a process per call (storeJSON, ...)
// then make their calls in ONE simulated process, one after the other.
var sameProcess bool

// newProcess simulates the start of a fresh test process.
func newProcess(m Mode) {
	if sameProcess {
		setMode(m)
		return
	}
	// every package-level variable of the library gets its initial value again (generated from the sources at build time:
	// state that a change introduces is as cold as in a real new process); the colour switch is the harness' own setting
	// UPDATE_SNAPS reaches the library the way it does in a real process: through the environment, read by the
	// initialisers that the generated reset re-evaluates (a change to how the variable is interpreted is in the loop).
	// CI detection lives in a dependency (ciinfo, evaluated at its own init): isCI is assigned.
	if m.Update == "" {
		os.Unsetenv("UPDATE_SNAPS")
	} else {
		os.Setenv("UPDATE_SNAPS", m.Update)
	}
	nc := colors.NOCOLOR
	verifResetGlobals() // cascades into every package of the module that snaps depends on
	colors.NOCOLOR = nc
	isCI = m.CI
}

func eventsSnapshot() map[string]int {
	testEvents.Lock()
	defer testEvents.Unlock()
	return map[string]int{
		"erred":   testEvents.items[erred],
		"added":   testEvents.items[added],
		"updated": testEvents.items[updated],
		"passed":  testEvents.items[passed],
	}
}

// ---------------------------------------------------------------------------------------------
// stdout capture (Clean prints the summary with fmt.Println)

var stdoutMu sync.Mutex

func captureStdout(fn func()) string {
	stdoutMu.Lock()
	defer stdoutMu.Unlock()
	old := os.Stdout
	r, w, err := os.Pipe()
	if err != nil {
		panic(err)
	}
	os.Stdout = w
	done := make(chan string)
	go func() {
		var buf bytes.Buffer
		io.Copy(&buf, r)
		done <- buf.String()
	}()
	func() {
		defer func() {
			os.Stdout = old
			w.Close()
		}()
		fn()
	}()
	out := <-done
	r.Close()
	return out
}

// foreignTmp: while set, Clean runs with TMPDIR on ANOTHER file system than the snapshot directories (a tmpfs /tmp next to
// a checkout on disk, a container with a bind-mounted workspace). Nothing the properties speak about depends on TMPDIR.
var foreignTmp bool

func withForeignTmp(fn func()) {
	const shm = "/dev/shm"
	if st, err := os.Stat(shm); !foreignTmp || err != nil || !st.IsDir() {
		fn()
		return
	}
	d, err := os.MkdirTemp(shm, "verif-tmpdir")
	if err != nil {
		fn()
		return
	}
	old, had := os.LookupEnv("TMPDIR")
	os.Setenv("TMPDIR", d)
	defer func() {
		if had {
			os.Setenv("TMPDIR", old)
		} else {
			os.Unsetenv("TMPDIR")
		}
		os.RemoveAll(d)
	}()
	fn()
}

// runClean calls the exported Clean with -run/-count set the way the real runner would have them.
func runClean(runOnly string, count int, opts ...CleanOpts) string {
	fr, fc := flag.Lookup("test.run"), flag.Lookup("test.count")
	oldRun, oldCount := fr.Value.String(), fc.Value.String()
	defer func() {
		flag.Set("test.run", oldRun)
		flag.Set("test.count", oldCount)
	}()
	flag.Set("test.run", runOnly)
	flag.Set("test.count", strconv.Itoa(count))
	return captureStdout(func() { withForeignTmp(func() { Clean(nil, opts...) }) })
}
