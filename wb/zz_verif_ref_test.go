//go:build verif

// Reference model: an independent, sequential reading of the multi-entry snapshot file grammar
// (README "Snapshots Structure"). It never calls the implementation's scanner helpers.
package snaps

import (
	"fmt"
	"strings"
)

type Entry struct {
	ID   BS `json:"id"`   // "<test name> - <n>"
	Body BS `json:"body"` // as stored (escaped)
}

// refParse reads a snapshot file sequentially:
//
//	file  := (blank-line* entry)* blank-line*
//	entry := "[" id "]" "\n" body-lines... "---" "\n"
//
// It returns the entries in file order; ok=false if the file is not well formed.
func refParse(data string) (entries []Entry, err error) {
	if data == "" {
		return nil, nil
	}
	lines := strings.Split(data, "\n")
	// a well formed file ends with "\n": the last element of the split is ""
	if lines[len(lines)-1] != "" {
		return nil, fmt.Errorf("file does not end with a newline")
	}
	lines = lines[:len(lines)-1]
	i := 0
	for i < len(lines) {
		l := lines[i]
		if l == "" {
			i++
			continue
		}
		if len(l) < 2 || l[0] != '[' || l[len(l)-1] != ']' {
			return entries, fmt.Errorf("line %d: expected an entry header, found %q", i+1, vhClip(l))
		}
		id := l[1 : len(l)-1]
		i++
		start := i
		for i < len(lines) && lines[i] != "---" {
			i++
		}
		if i == len(lines) {
			return entries, fmt.Errorf("entry %q is not terminated", id)
		}
		entries = append(entries, Entry{ID: BS(id), Body: BS(strings.Join(lines[start:i], "\n"))})
		i++ // terminator
	}
	return entries, nil
}

// refRender writes entries the way the README documents them.
func refRender(entries []Entry) string {
	var sb strings.Builder
	for _, e := range entries {
		sb.WriteString("\n[" + string(e.ID) + "]\n" + string(e.Body) + "\n---\n")
	}
	return sb.String()
}

// refEscape / refUnescape: README – a whole line "---" is stored as "/-/-/-/".
func refEscape(s string) string {
	ls := strings.Split(s, "\n")
	for i, l := range ls {
		if l == "---" {
			ls[i] = "/-/-/-/"
		}
	}
	return strings.Join(ls, "\n")
}

func refUnescape(s string) string {
	ls := strings.Split(s, "\n")
	for i, l := range ls {
		if l == "/-/-/-/" {
			ls[i] = "---"
		}
	}
	return strings.Join(ls, "\n")
}

func entryID(name string, n int) string { return fmt.Sprintf("%s - %d", name, n) }

func findEntry(es []Entry, id string) int {
	for i, e := range es {
		if string(e.ID) == id {
			return i
		}
	}
	return -1
}

func entriesEqual(a, b []Entry) bool {
	if len(a) != len(b) {
		return false
	}
	for i := range a {
		if a[i] != b[i] {
			return false
		}
	}
	return true
}

func describeEntries(es []Entry) string {
	var parts []string
	for _, e := range es {
		parts = append(parts, fmt.Sprintf("[%s]=%q", e.ID, vhClip(string(e.Body))))
	}
	return strings.Join(parts, " ")
}

// naturalLess: independent chunk-wise natural comparison (digit runs numerically, the rest bytewise).
// Returns -1, 0, 1. Digit runs that are numerically equal compare equal regardless of zero padding.
func vhNaturalCmp(a, b string) int {
	i, j := 0, 0
	for i < len(a) && j < len(b) {
		ad, bd := vhIsDigit(a[i]), vhIsDigit(b[j])
		if ad && bd {
			si := i
			for i < len(a) && vhIsDigit(a[i]) {
				i++
			}
			sj := j
			for j < len(b) && vhIsDigit(b[j]) {
				j++
			}
			na := strings.TrimLeft(a[si:i], "0")
			nb := strings.TrimLeft(b[sj:j], "0")
			if len(na) != len(nb) {
				if len(na) < len(nb) {
					return -1
				}
				return 1
			}
			if na != nb {
				if na < nb {
					return -1
				}
				return 1
			}
			continue
		}
		if a[i] != b[j] {
			if a[i] < b[j] {
				return -1
			}
			return 1
		}
		i++
		j++
	}
	switch {
	case i < len(a):
		return 1
	case j < len(b):
		return -1
	}
	return 0
}

func vhIsDigit(c byte) bool { return c >= '0' && c <= '9' }

// refParseLoose is refParse for files that may end with an unterminated entry (e.g. a file truncated by a crash):
// the complete entries are returned, the dangling tail is ignored.
func refParseLoose(data string) []Entry {
	// CRLF line ends (a checkout with autocrlf): every reader of the format drops the CR at the end of a line
	data = strings.ReplaceAll(data, "\r\n", "\n")
	es, err := refParse(data)
	if err == nil {
		return es
	}
	// cut the file after the last terminator line and parse that prefix
	idx := strings.LastIndex(data, "\n---\n")
	if idx < 0 {
		return nil
	}
	es, _ = refParse(data[:idx+len("\n---\n")])
	return es
}
