//go:build verif

// C14 JSON snapshots are canonical and lossless.
package snaps

import (
	"time"
	"errors"
	"math/big"
	"github.com/gkampitakis/go-snaps/match"
	"encoding/json"
	"fmt"
	"os"
	"path/filepath"
	"strings"
	"testing"

	"pgregory.net/rapid"
)

type c14Case struct {
	API      string   `json:"api"` // json | sjson
	Opt      *JSONCfg `json:"json_options,omitempty"`
	Tree     JNode    `json:"tree"`
	Spaced   BS       `json:"spaced"`   // the tree with insignificant whitespace
	Permuted BS       `json:"permuted"` // the tree with object members reordered (compact)
	Invalid  BS       `json:"invalid"`  // a text that is not valid JSON
	InvForm  string   `json:"invalid_form"`
	Test     string   `json:"test"`
}

func genJSONOpt(t *rapid.T) *JSONCfg {
	if rapid.Bool().Draw(t, "defaultopts") {
		return nil
	}
	return &JSONCfg{
		Width:    rapid.SampledFrom([]int{0, 1, 10, 40, 80, 120}).Draw(t, "width"),
		Indent:   rapid.SampledFrom([]string{"", " ", "  ", "\t", "    "}).Draw(t, "indent"),
		SortKeys: rapid.Bool().Draw(t, "sortkeys"),
	}
}

var invalidPads = []string{"\v", "\f", "\u0085", "\u00a0", "\u2028", "\u2029", "\ufeff", "\x00", "x"}

func genInvalidJSON(t *rapid.T, valid string) string {
	for i := 0; i < 20; i++ {
		var s string
		switch rapid.IntRange(0, 9).Draw(t, "invkind") {
		case 0:
			if len(valid) > 1 {
				s = valid[:rapid.IntRange(0, len(valid)-1).Draw(t, "trunc")]
			}
		case 1:
			s = strings.Replace(valid, "\"", "", 1)
		case 2:
			s = strings.Replace(valid, "}", "", 1)
		case 3:
			s = strings.Replace(valid, "]", ",]", 1)
		case 4:
			s = strings.Replace(valid, "}", ",}", 1)
		case 5:
			s = rapid.SampledFrom([]string{"NaN", "01", "-", "+1", "1.", ".5", "tru", "nul", "'a'", "{'a':1}", "{a:1}", "[1 2]", "{\"a\" 1}", "\"\x01\"", "\"\\x\"", "", " ", "{\"a\":1}}", "[1],", "1 2"}).Draw(t, "fixedinvalid")
		case 6:
			s = rapid.SampledFrom(invalidPads).Draw(t, "pad") + valid
		case 7:
			s = valid + rapid.SampledFrom(invalidPads).Draw(t, "pad")
		case 8:
			s = valid + valid
		default:
			s = strings.Replace(valid, ":", "=", 1)
		}
		if !json.Valid([]byte(s)) && vhValidUTF8(s) {
			return s
		}
	}
	return "{"
}

func genC14(t *rapid.T) c14Case {
	tree := genJRoot(t, rapid.IntRange(1, 5).Draw(t, "depth"))
	c := c14Case{API: rapid.SampledFrom([]string{"json", "sjson"}).Draw(t, "api"), Opt: genJSONOpt(t), Tree: tree, Test: genTestName(t)}
	c.Spaced = BS(tree.Spaced(t))
	c.Permuted = BS(tree.Permuted(t).Compact())
	c.Invalid = BS(genInvalidJSON(t, tree.Compact()))
	c.InvForm = rapid.SampledFrom([]string{"string", "bytes"}).Draw(t, "invform")
	return c
}

// storeJSON records one document in a fresh directory and process and returns the stored text.
func storeJSON(api string, opt *JSONCfg, test string, doc, form string) (string, error) {
	root := scratchDir()
	defer os.RemoveAll(root)
	newProcess(Mode{})
	spec := CfgSpec{Dir: "snaps", Filename: "f", JSON: opt}
	if api == "sjson" {
		spec.Filename = ""
	}
	if opt == nil && len(doc)%3 == 0 {
		spec.Filename, spec.PkgLevel = "", true // the package-level MatchJSON / MatchStandaloneJSON
	}
	ft := newFakeT(test)
	call := Call{API: api, Doc: BS(doc), Form: form}
	r := call.invoke(spec.build(root), ft)
	ft.finish()
	if out, err := outcomeOf(r); err != nil || out != oAdded {
		return "", fmt.Errorf("storing %s form of %q: outcome %q err %v errors=%q", form, vhClip(doc), out, err, vhClipAll(r.Errors))
	}
	if !r.InputOK {
		return "", fmt.Errorf("storing %s form of %q modified the caller's input", form, vhClip(doc))
	}
	if api == "sjson" {
		return vhReadFile(filepath.Join(root, spec.standalonePath(test, 1, true))), nil
	}
	es, err := refParse(vhReadFile(filepath.Join(root, spec.multiPath())))
	if err != nil || len(es) != 1 {
		return "", fmt.Errorf("storing %q: file has %d entries (%v)", vhClip(doc), len(es), err)
	}
	return string(es[0].Body), nil
}

type c14Money struct {
	Cents    int64
	Currency string
}

// pointer receiver: json.Marshal(c14Money{..}) (a non-addressable value) does NOT call it
func (m *c14Money) MarshalJSON() ([]byte, error) {
	return []byte(fmt.Sprintf(`"%d.%02d %s"`, m.Cents/100, m.Cents%100, m.Currency)), nil
}

type c14Invoice struct {
	No    string
	Total c14Money
}

type c14Ledger struct {
	ID     int
	Amount big.Int
	Rate   big.Float
}

type c14APIError struct {
	Code    int    `json:"code"`
	Message string `json:"message"`
}

func (e c14APIError) Error() string { return fmt.Sprintf("api: %d %s", e.Code, e.Message) }

type c14FieldErrors []c14APIError

func (e c14FieldErrors) Error() string { return fmt.Sprintf("%d field errors", len(e)) }

// c14Level: a Stringer and TextMarshaler (used as a value and as a map key)
type c14Level int

func (l c14Level) String() string               { return fmt.Sprintf("level-%d", int(l)) }
func (l c14Level) MarshalText() ([]byte, error) { return []byte(l.String()), nil }

type namedString string
type namedBytes []byte

func checkC14(c c14Case) error {
	compact := c.Tree.Compact()
	// default-configuration witness: what the default configuration stores must not depend on calls made with other options
	// (one process: default configuration, then the case's options through both JSON entry points, then the default again)
	newProcess(Mode{})
	sameProcess = true
	defBefore, err := storeJSON(c.API, nil, c.Test, compact, "string")
	if err == nil && c.Opt != nil {
		_, err = storeJSON("json", c.Opt, c.Test, compact, "bytes")
		if err == nil {
			_, err = storeJSON("sjson", c.Opt, c.Test, string(c.Permuted), "string")
		}
	}
	var defAfter string
	if err == nil {
		defAfter, err = storeJSON(c.API, nil, c.Test, string(c.Permuted), "bytes")
	}
	sameProcess = false
	if err != nil {
		return err
	}
	if defAfter != defBefore {
		return fmt.Errorf("the default configuration stores %q differently after calls with options %+v (member order must not matter, keys are sorted by default):\nbefore %q\nafter  %q", vhClip(compact), c.Opt, vhClip(defBefore), vhClip(defAfter))
	}
	if err := checkC14Body(c, compact); err != nil {
		return err
	}
	// Go values of defined string / byte-slice types go through their standard JSON encoding
	vi := 0
	type unsortedFields struct {
		Zeta  int            `json:"zeta"`
		Alpha string         `json:"alpha"`
		Mid   map[string]any `json:"mid,omitempty"`
	}
	for _, v := range []any{namedString("active"), namedString("12"), namedString(`{"a":1}`), namedBytes("blob"), json.RawMessage(compact), []string{"a", "<b>"}, map[namedString]int{"k": 1},
		// envelopes: a map (encoding/json sorts its keys) holding values whose own member order is NOT sorted
		map[string]any{"status": "ok", "user": unsortedFields{Zeta: 1, Alpha: "a"}},
		map[string]any{"raw": json.RawMessage(`{"z":1,"a":{"y":2,"b":3}}`), "b": 1},
		map[string]any{"list": []any{unsortedFields{Zeta: 2, Alpha: "b", Mid: map[string]any{"k": unsortedFields{Zeta: 3}}}}},
		[]any{unsortedFields{Zeta: 4, Alpha: "c"}, map[string]string{"z": "1", "a": "2"}},
		unsortedFields{Zeta: 5, Alpha: "d"},
		// values (NOT pointers) of types whose marshalers have pointer receivers: the standard encoding of a non-addressable
		// value ignores those methods
		c14Ledger{ID: 7, Amount: *big.NewInt(1250), Rate: *big.NewFloat(1.5)}, c14Money{Cents: 1999, Currency: "EUR"},
		c14Invoice{No: "A-1", Total: c14Money{Cents: 5, Currency: "USD"}}, []any{c14Money{Cents: 1, Currency: "CHF"}},
		&c14Money{Cents: 42, Currency: "GBP"}, map[string]any{"m": c14Money{Cents: 3, Currency: "SEK"}},
		// typed nil containers and pointers (a result list that stayed empty, an optional section): their standard encoding
		// is null, not [] or {}; empty non-nil containers next to them
		map[string]any{"status": "ok", "rows": []any(nil)}, map[string]any{"meta": map[string]any(nil), "tags": []string(nil)},
		[]any{[]any(nil), map[string]any(nil), (*int)(nil), []any{}, map[string]any{}}, []any(nil), map[string]any(nil),
		map[string]any{"deep": []any{map[string]any{"rows": []any(nil), "empty": []any{}}}},
		// values that happen to implement error (API error bodies, validation results): JSON encoding does not care
		c14APIError{Code: 404, Message: "user not found"}, &c14APIError{Code: 500, Message: "boom"}, c14FieldErrors{{Code: 1, Message: "a"}, {Code: 2, Message: "b"}},
		errors.New("plain error"), fmt.Errorf("wrapped: %w", errors.New("inner")), map[string]any{"error": c14APIError{Code: 1, Message: "nested"}},
		// fmt.Stringer / encoding.TextMarshaler values, time values
		c14Level(2), map[c14Level]string{1: "one"}, []any{c14Level(3), time.Date(2026, 1, 2, 3, 4, 5, 6, time.UTC), time.Duration(1500)},
		unsortedFields{Zeta: 6, Mid: map[string]any{}}, struct {
			Rows []int          `json:"rows"`
			Opt  *int           `json:"opt"`
			M    map[string]int `json:"m"`
		}{}} {
		vi++
		if (len(compact)+vi)%4 != 0 {
			continue // every case takes a quarter of the typed values (by the length of its document)
		}
		mb, merr := json.Marshal(v)
		if merr != nil {
			continue
		}
		viaText, err := storeJSON(c.API, c.Opt, c.Test, string(mb), "string")
		if err != nil {
			return err
		}
		viaValue, err := storeJSONValue(c.API, c.Opt, c.Test, v)
		if err != nil {
			return fmt.Errorf("Go value %T(%v): %v", v, v, err)
		}
		a, _ := parseJNode(viaText)
		b, perr := parseJNode(viaValue)
		if perr != nil || a.Canon() != b.Canon() {
			return fmt.Errorf("Go value %T stores %q, its standard JSON encoding %q stores %q", v, vhClip(viaValue), mb, vhClip(viaText))
		}
		if (c.Opt == nil || c.Opt.SortKeys) && viaText != viaValue {
			return fmt.Errorf("Go value %T and its standard JSON encoding %q store different texts although this configuration sorts members:\nvalue %q\ntext  %q", v, mb, vhClip(viaValue), vhClip(viaText))
		}
	}
	return nil
}

// storeJSONValue records a Go value (not text) in a fresh directory/process.
func storeJSONValue(api string, opt *JSONCfg, test string, v any) (string, error) {
	root := scratchDir()
	defer os.RemoveAll(root)
	newProcess(Mode{})
	spec := CfgSpec{Dir: "snaps", Filename: "f", JSON: opt}
	if api == "sjson" {
		spec.Filename = ""
	}
	ft := newFakeT(test)
	cfg := spec.build(root)
	if api == "sjson" {
		cfg.MatchStandaloneJSON(ft, v)
	} else {
		cfg.MatchJSON(ft, v)
	}
	ft.finish()
	if e, _ := ft.drain(); len(e) != 0 {
		return "", fmt.Errorf("storing the value failed: %q", vhClipAll(e))
	}
	if api == "sjson" {
		return vhReadFile(filepath.Join(root, spec.standalonePath(test, 1, true))), nil
	}
	es, err := refParse(vhReadFile(filepath.Join(root, spec.multiPath())))
	if err != nil || len(es) != 1 {
		return "", fmt.Errorf("storing the value: %d entries (%v)", len(es), err)
	}
	return string(es[0].Body), nil
}

func checkC14Body(c c14Case, compact string) error {
	sortKeys := c.Opt == nil || c.Opt.SortKeys
	base, err := storeJSON(c.API, c.Opt, c.Test, compact, "string")
	if err != nil {
		return err
	}
	// (3) lossless and valid
	if !json.Valid([]byte(base)) {
		return fmt.Errorf("stored text is not valid JSON: %q", vhClip(base))
	}
	got, err := parseJNode(base)
	if err != nil {
		return fmt.Errorf("stored text does not parse: %v: %q", err, vhClip(base))
	}
	if got.Canon() != c.Tree.Canon() {
		return fmt.Errorf("stored text %q is not the JSON value of the input %q", vhClip(base), vhClip(compact))
	}
	if !sortKeys && got.Compact() != c.Tree.Compact() {
		return fmt.Errorf("SortKeys=false but member order changed: input %q stored %q", vhClip(compact), vhClip(base))
	}
	if strings.HasSuffix(base, "\n") {
		return fmt.Errorf("stored text ends with a newline: %q", vhClip(base))
	}
	// (2) whitespace variants, member order
	if sp, err := storeJSON(c.API, c.Opt, c.Test, string(c.Spaced), "string"); err != nil {
		return err
	} else if sp != base {
		return fmt.Errorf("texts differing only in insignificant whitespace store differently:\n%q ->\n%q\n%q ->\n%q", vhClip(compact), vhClip(base), vhClip(string(c.Spaced)), vhClip(sp))
	}
	if sortKeys {
		if pm, err := storeJSON(c.API, c.Opt, c.Test, string(c.Permuted), "bytes"); err != nil {
			return err
		} else if pm != base {
			return fmt.Errorf("texts differing only in member order store differently (keys are sorted by this configuration):\n%q ->\n%q\n%q ->\n%q", vhClip(compact), vhClip(base), vhClip(string(c.Permuted)), vhClip(pm))
		}
	}
	// (1) forms: s = json.Marshal(v); stored(s) == stored([]byte(s)) == stored(v)
	if c.Tree.K != "str" {
		v := jsonValueOf(compact)
		mb, merr := json.Marshal(v)
		if merr != nil {
			return fmt.Errorf("harness: json.Marshal: %v", merr)
		}
		s := string(mb)
		ss, err := storeJSON(c.API, c.Opt, c.Test, s, "string")
		if err != nil {
			return err
		}
		sb, err := storeJSON(c.API, c.Opt, c.Test, s, "bytes")
		if err != nil {
			return err
		}
		// the value form goes through jsonValueOf(s) again: an equivalent Go value
		sv, err := storeJSON(c.API, c.Opt, c.Test, s, "value")
		if err != nil {
			return err
		}
		if ss != sb || (sortKeys && ss != sv) {
			return fmt.Errorf("the three input forms of %q store differently:\nstring %q\nbytes  %q\nvalue  %q", vhClip(s), vhClip(ss), vhClip(sb), vhClip(sv))
		}
		if !sortKeys {
			// json.Marshal sorts map keys; with SortKeys=false compare as values
			a, _ := parseJNode(ss)
			b, perr := parseJNode(sv)
			if perr != nil || a.Canon() != b.Canon() {
				return fmt.Errorf("value form stores another JSON value than the string form: %q vs %q", vhClip(sv), vhClip(ss))
			}
		}
	}
	// (5) one byte buffer reused for documents of the same length (a read buffer, a patched template)
	if err := checkC14BufferReuse(c, compact); err != nil {
		return err
	}
	if string(c.Spaced) != compact {
		// the same with an indented presentation of the document (a fixture read with os.ReadFile)
		if err := checkC14BufferReuse(c, string(c.Spaced)); err != nil {
			return fmt.Errorf("indented input: %w", err)
		}
	}
	// (4) invalid input: one error, nothing written, ordinal consumed
	root := scratchDir()
	defer os.RemoveAll(root)
	newProcess(Mode{})
	spec := CfgSpec{Dir: "snaps", Filename: "f", JSON: c.Opt}
	if c.API == "sjson" {
		spec.Filename = ""
	}
	cfg := spec.build(root)
	ft := newFakeT(c.Test)
	r := Call{API: c.API, Doc: c.Invalid, Form: c.InvForm}.invoke(cfg, ft)
	out, oerr := outcomeOf(r)
	if oerr != nil || out != oFailed {
		return fmt.Errorf("input %q is not valid JSON (encoding/json) but the call ended as %q (%v)", vhClip(string(c.Invalid)), out, oerr)
	}
	for p, f := range snapDir(root) {
		if !f.IsDir {
			return fmt.Errorf("invalid input %q wrote %q", vhClip(string(c.Invalid)), p)
		}
	}
	r = Call{API: c.API, Doc: BS(compact), Form: "string"}.invoke(cfg, ft)
	ft.finish()
	if out, oerr := outcomeOf(r); oerr != nil || out != oAdded {
		return fmt.Errorf("valid call after an invalid one: outcome %q (%v)", out, oerr)
	}
	if c.API == "sjson" {
		want := spec.standalonePath(c.Test, 2, true)
		if _, err := os.Stat(filepath.Join(root, want)); err != nil {
			return fmt.Errorf("the failing call must consume its ordinal: second call should create %q; directory has %v", want, vhKeysOfState(snapDir(root)))
		}
	} else {
		es, _ := refParse(vhReadFile(filepath.Join(root, spec.multiPath())))
		if len(es) != 1 || string(es[0].ID) != entryID(c.Test, 2) {
			return fmt.Errorf("the failing call must consume its ordinal: second call should create %q, file has %s", entryID(c.Test, 2), describeEntries(es))
		}
	}
	// (5) invalid input when the slot already holds the valid document (a later run: the fixture got a stray brace, a second
	// document was appended, a colon was lost): rejected in every mode, also when updating is enabled - nothing is written
	root5 := scratchDir()
	defer os.RemoveAll(root5)
	newProcess(Mode{})
	ft5 := newFakeT(c.Test)
	if r0 := (Call{API: c.API, Doc: BS(compact), Form: "string"}).invoke(spec.build(root5), ft5); len(r0.Errors) != 0 {
		return fmt.Errorf("harness: storing the valid document: %q", vhClipAll(r0.Errors))
	}
	ft5.finish()
	// (6) a VALID document that differs from the stored one in the last digit of a long number (an id beyond 2^53, a
	// nanosecond timestamp) - or, without such a number, in one digit or letter anywhere: a different value. Reported in a
	// read-only run, written by an updating one.
	if nb := lowDigitVariant(compact); nb != "" {
		newProcess(Mode{CI: true})
		ft6 := newFakeT(c.Test)
		r6 := Call{API: c.API, Doc: BS(nb), Form: "string"}.invoke(spec.build(root5), ft6)
		ft6.finish()
		if out, oerr := outcomeOf(r6); oerr != nil || out != oFailed {
			return fmt.Errorf("document %q differs from the stored %q in one digit, but the read-only call ended as %q (%v)", vhClip(nb), vhClip(compact), out, oerr)
		}
		newProcess(Mode{Update: "true"})
		ft6 = newFakeT(c.Test)
		r6 = Call{API: c.API, Doc: BS(nb), Form: "bytes"}.invoke(spec.build(root5), ft6)
		ft6.finish()
		if out, oerr := outcomeOf(r6); oerr != nil || out != oUpdated {
			return fmt.Errorf("document %q differs from the stored %q in one digit, but the updating call ended as %q (%v)", vhClip(nb), vhClip(compact), out, oerr)
		}
		var got string
		if c.API == "sjson" {
			got = vhReadFile(filepath.Join(root5, spec.standalonePath(c.Test, 1, true)))
		} else if es, _ := refParse(vhReadFile(filepath.Join(root5, spec.multiPath()))); len(es) == 1 {
			got = string(es[0].Body)
		}
		a, aerr := parseJNode(got)
		b, _ := parseJNode(nb)
		if aerr != nil || a.Canon() != b.Canon() {
			return fmt.Errorf("after the update the stored text %q does not parse to the value of %q", vhClip(got), vhClip(nb))
		}
		compact = nb // (what the slot holds from here on)
	}
	lateInvalid := []string{compact + "}", compact + "]", compact + " " + compact, compact + " trailing", string(c.Invalid)}
	if i := strings.Index(compact, `":`); i >= 0 {
		lateInvalid = append(lateInvalid, compact[:i+1]+" "+compact[i+2:]) // the first colon is lost
	}
	pick := lateInvalid[(len(compact)+len(c.Test))%len(lateInvalid)]
	if json.Valid([]byte(pick)) {
		return nil
	}
	for _, mode := range []Mode{{}, {Update: "true"}, {CI: true}} {
		newProcess(mode)
		ageDir(root5)
		pre := snapDir(root5)
		ft5 = newFakeT(c.Test)
		r5 := Call{API: c.API, Doc: BS(pick), Form: c.InvForm}.invoke(spec.build(root5), ft5)
		ft5.finish()
		if out, oerr := outcomeOf(r5); oerr != nil || out != oFailed {
			return fmt.Errorf("input %q is not valid JSON; with the valid document %q already stored (mode %+v) the call ended as %q (%v)", vhClip(pick), vhClip(compact), mode, out, oerr)
		}
		if d := diffDirs(pre, snapDir(root5), true); d != "" {
			return fmt.Errorf("invalid input %q (valid document already stored, mode %+v) wrote: %s", vhClip(pick), mode, d)
		}
	}
	return nil
}

// sameLengthVariants derives documents of exactly the same byte length with another value: a digit 1-9 becomes
// another digit 1-9, an unescaped ASCII letter inside a string becomes another letter, a literal true becomes null.
func sameLengthVariants(doc string, max int) []string {
	var pos []int
	inStr := false
	for i := 0; i < len(doc); i++ {
		ch := doc[i]
		if inStr {
			switch {
			case ch == '\\':
				if i+1 < len(doc) && doc[i+1] == 'u' {
					i += 5
				} else {
					i++
				}
			case ch == '"':
				inStr = false
			case ch >= 'a' && ch <= 'z', ch >= '1' && ch <= '9':
				pos = append(pos, i)
			}
			continue
		}
		switch {
		case ch == '"':
			inStr = true
		case ch >= '1' && ch <= '9':
			pos = append(pos, i)
		case strings.HasPrefix(doc[i:], "true"):
			pos = append(pos, -i-1)
			i += 3
		}
	}
	var out []string
	for k := 0; k < len(pos) && len(out) < max; k++ {
		// spread over the document: first, last, middle, ...
		p := pos[(k*7)%len(pos)]
		b := []byte(doc)
		switch {
		case p < 0:
			copy(b[-p-1:], "null")
		case b[p] >= '1' && b[p] <= '9':
			b[p] = '1' + (b[p]-'1'+4)%9
		default:
			b[p] = 'a' + (b[p]-'a'+7)%26
		}
		if v := string(b); v != doc && json.Valid(b) {
			out = append(out, v)
		}
	}
	return out
}

// lowDigitVariant: the document with the LAST digit of its longest integer literal of 16+ digits changed; failing that, the
// first same-length variant; "" if there is none.
func lowDigitVariant(doc string) string {
	best, bestLen := -1, 0
	inStr := false
	for i := 0; i < len(doc); i++ {
		ch := doc[i]
		if inStr {
			if ch == '\\' {
				i++
			} else if ch == '"' {
				inStr = false
			}
			continue
		}
		if ch == '"' {
			inStr = true
			continue
		}
		if ch >= '0' && ch <= '9' {
			j := i
			for j < len(doc) && doc[j] >= '0' && doc[j] <= '9' {
				j++
			}
			if j-i >= 16 && j-i > bestLen && (j == len(doc) || (doc[j] != '.' && doc[j] != 'e' && doc[j] != 'E')) {
				best, bestLen = j-1, j-i
			}
			i = j - 1
		}
	}
	if best >= 0 {
		b := []byte(doc)
		b[best] = '0' + (b[best]-'0'+1)%10
		if best+1-bestLen >= 0 && bestLen > 1 && json.Valid(b) {
			return string(b)
		}
	}
	if vs := sameLengthVariants(doc, 1); len(vs) > 0 {
		return vs[0]
	}
	return ""
}

// checkC14BufferReuse: the caller keeps ONE []byte and overwrites it in place with documents of the same length
// between assertions. Every assertion must store what a fresh process stores for that document.
func checkC14BufferReuse(c c14Case, compact string) error {
	variants := sameLengthVariants(compact, 3)
	if len(variants) == 0 {
		return nil
	}
	docs := append([]string{compact}, variants...)
	docs = append(docs, compact) // and back to the first document
	want := make([]string, len(docs))
	for i, d := range docs {
		w, err := storeJSON(c.API, c.Opt, c.Test, d, "string")
		if err != nil {
			return err
		}
		want[i] = w
	}
	root := scratchDir()
	defer os.RemoveAll(root)
	newProcess(Mode{})
	spec := CfgSpec{Dir: "snaps", Filename: "f", JSON: c.Opt}
	if c.API == "sjson" {
		spec.Filename = ""
	}
	cfg := spec.build(root)
	ft := newFakeT(c.Test)
	buf := make([]byte, len(compact))
	// every other assertion carries a matcher that has nothing to do (a tolerated missing path): the document goes through
	// the matcher stage and must come out - and leave the caller's buffer - as it went in
	idle := func() []match.JSONMatcher {
		return []match.JSONMatcher{match.Any("no.such.path.in.any.document").ErrOnMissingPath(false)}
	}
	for i, d := range docs {
		copy(buf, d)
		var ms []match.JSONMatcher
		if i%2 == 0 {
			ms = idle()
		}
		if c.API == "sjson" {
			cfg.MatchStandaloneJSON(ft, buf, ms...)
		} else {
			cfg.MatchJSON(ft, buf, ms...)
		}
		if string(buf) != d {
			return fmt.Errorf("the call modified the caller's buffer: %q -> %q", vhClip(d), vhClip(string(buf)))
		}
		// the same document as a string right after it
		if i%2 == 1 {
			if c.API == "sjson" {
				cfg.MatchStandaloneJSON(ft, d)
			} else {
				cfg.MatchJSON(ft, d)
			}
		}
	}
	ft.finish()
	if e, _ := ft.drain(); len(e) != 0 {
		return fmt.Errorf("buffer reuse: calls failed: %q", vhClipAll(e))
	}
	var got []string
	if c.API == "sjson" {
		for n := 1; ; n++ {
			p := filepath.Join(root, spec.standalonePath(c.Test, n, true))
			if _, err := os.Stat(p); err != nil {
				break
			}
			got = append(got, vhReadFile(p))
		}
	} else {
		es, err := refParse(vhReadFile(filepath.Join(root, spec.multiPath())))
		if err != nil {
			return fmt.Errorf("buffer reuse: %v", err)
		}
		for n := 1; ; n++ {
			i := findEntry(es, entryID(c.Test, n))
			if i < 0 {
				break
			}
			got = append(got, string(es[i].Body))
		}
	}
	k := 0
	for i, d := range docs {
		reps := 1
		if i%2 == 1 {
			reps = 2
		}
		for r := 0; r < reps; r++ {
			if k >= len(got) {
				return fmt.Errorf("buffer reuse: %d snapshots stored, more expected", len(got))
			}
			if got[k] != want[i] {
				return fmt.Errorf("assertion %d passes %q (the caller's buffer rewritten in place, same length as the previous document %q) but the stored text is %q; a fresh process stores %q", k+1, vhClip(d), vhClip(docs[max(i-1, 0)]), vhClip(got[k]), vhClip(want[i]))
			}
			k++
		}
	}
	return nil
}

func classifyC14(c c14Case) ([]string, bool) {
	var cls []string
	nt := true // every case carries an invalid input
	if c.Tree.Depth() >= 2 {
		cls = append(cls, "depth_ge_2")
	}
	txt := c.Tree.Compact()
	for _, n := range []string{"-0", "e", "E", "1.50", "123456789012345678901234567890"} {
		if strings.Contains(txt, n) {
			cls = append(cls, "exotic_number")
			break
		}
	}
	if strings.Contains(txt, "\\") {
		cls = append(cls, "escapes")
	}
	if c.Opt == nil {
		cls = append(cls, "default_options")
	} else if c.Opt.SortKeys {
		cls = append(cls, "custom_options_sorted")
	} else {
		cls = append(cls, "custom_options_unsorted")
	}
	cls = append(cls, "api_"+c.API)
	if len(sameLengthVariants(txt, 1)) > 0 {
		cls = append(cls, "buffer_reused_for_same_length_documents")
	}
	return cls, nt
}

func TestC14_JSONCanonical(t *testing.T) {
	prop[c14Case]{property: "C14", gen: genC14, check: checkC14, classify: classifyC14}.run(t)
}
