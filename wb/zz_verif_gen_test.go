//go:build verif

// Shared generators: test names, lines/texts, Go values for MatchSnapshot.
package snaps

import (
	"fmt"
	"strconv"
	"strings"
	"unicode"
	"unicode/utf8"

	"github.com/kr/pretty"
	"pgregory.net/rapid"
)

// ---------------------------------------------------------------------------------------------
// test names: only names the real runner can produce.

// rewriteName mirrors testing.rewrite: what t.Run does to a subtest name.
func rewriteName(s string) string {
	b := []byte{}
	for _, r := range s {
		switch {
		case unicode.IsSpace(r):
			b = append(b, '_')
		case !strconv.IsPrint(r):
			q := strconv.QuoteRune(r)
			b = append(b, q[1:len(q)-1]...)
		default:
			b = append(b, string(r)...)
		}
	}
	return string(b)
}

var topNames = []string{"TestA", "TestAB", "TestB", "TestA1", "TestA10", "TestA2", "Test_x", "TestÄ", "TestC2", "TestC10", "Test"}

var subRaw = []string{"11", "/lead", "../rel", "a//b", "s", "s#01", "1", "10", "2", "9", "sub test", "a b", "x/y", "100%", "[x]", "a-b", "a - b", "é", "#00", "Sub", "deep", ".", "a.b", "%d", "%s", "%%", "case: empty", "GET /users?id=1", "*.go", "quote\"d", "a<b>|c", "10:30", "back\\slash"}

func genSubName(t *rapid.T) string {
	if rapid.IntRange(0, 9).Draw(t, "subkind") < 8 {
		return rewriteName(rapid.SampledFrom(subRaw).Draw(t, "sub"))
	}
	s := rapid.StringN(1, 6, -1).Draw(t, "subrand")
	s = strings.ToValidUTF8(s, "?")
	s = strings.ReplaceAll(s, "\n", "_")
	r := rewriteName(s)
	if r == "" {
		r = "#00"
	}
	return r
}

// genTestName draws a top-level or (nested) subtest name. " - " can never occur inside a
// component because rewrite maps spaces to '_'.
func genTestName(t *rapid.T) string {
	name := rapid.SampledFrom(topNames).Draw(t, "top")
	depth := rapid.SampledFrom([]int{0, 0, 0, 1, 1, 2}).Draw(t, "depth")
	for i := 0; i < depth; i++ {
		name += "/" + genSubName(t)
	}
	return name
}

// genNamePool draws n distinct names, favouring prefix-related pairs.
func genNamePool(t *rapid.T, n int) []string {
	seen := map[string]bool{}
	var out []string
	for tries := 0; len(out) < n && tries < 50; tries++ {
		var name string
		if len(out) > 0 && rapid.IntRange(0, 2).Draw(t, "related") == 0 {
			base := out[rapid.IntRange(0, len(out)-1).Draw(t, "base")]
			switch rapid.IntRange(0, 5).Draw(t, "rel") {
			case 5: // the base name with the case of its last letter flipped (table subtests "GET" / "get"): TestA/get -> TestA/geT
				name = base
				for i := len(base) - 1; i > 4; i-- {
					if c := base[i]; c >= 'a' && c <= 'z' {
						name = base[:i] + string(c-32) + base[i+1:]
						break
					} else if c >= 'A' && c <= 'Z' {
						name = base[:i] + string(c+32) + base[i+1:]
						break
					}
				}
			case 4: // the base name with its last character doubled: T/1 -> T/11, TestA -> TestAA
				name = base + base[len(base)-1:]
			case 0:
				name = base + "/" + genSubName(t)
			case 1:
				name = base + "0"
			case 2: // a suffix that sorts below '/': siblings of the base that order between it and its sub tests
				name = base + rapid.SampledFrom([]string{"#01", "-b", ".1", "(x)", ",y", "+1"}).Draw(t, "lowsuffix")
			default:
				name = base + "B"
			}
		} else {
			name = genTestName(t)
		}
		// distinct also after the standalone file-name mapping ('/' -> '_')
		flat := "flat:" + strings.ReplaceAll(name, "/", "_")
		if !seen[name] && !seen[flat] {
			seen[name] = true
			seen[flat] = true
			out = append(out, name)
		}
	}
	for i := 0; len(out) < n; i++ {
		name := fmt.Sprintf("TestZ%d", i)
		if !seen[name] {
			seen[name] = true
			out = append(out, name)
		}
	}
	return out
}

// withOtherRunners renames some tests of the pool to benchmarks / fuzz targets: a *testing.B and the *testing.T of a fuzz
// target are testingT values too (names Benchmark… / Fuzz…/seed#0), and custom runners use names of their own. Only for
// properties about the Match* calls: Clean's notion of an entry header is `[Test… - n]`.
func withOtherRunners(t *rapid.T, names []string) []string {
	if rapid.IntRange(0, 3).Draw(t, "otherrunners") != 0 {
		return names
	}
	out := append([]string{}, names...)
	seen := map[string]bool{}
	for _, n := range out {
		seen[n] = true
		seen["flat:"+strings.ReplaceAll(n, "/", "_")] = true
	}
	for i := range out {
		if !rapid.Bool().Draw(t, "rename") {
			continue
		}
		rest := strings.TrimPrefix(out[i], "Test")
		var name string
		switch rapid.IntRange(0, 3).Draw(t, "runner") {
		case 0:
			name = "Benchmark" + rest
		case 1:
			name = "Fuzz" + rest + "/seed#0"
		case 2:
			name = "Example" + rest
		default:
			name = "spec " + rest // a runner with names of its own
		}
		if flat := "flat:" + strings.ReplaceAll(name, "/", "_"); !seen[name] && !seen[flat] {
			seen[name], seen[flat] = true, true
			out[i] = name
		}
	}
	return out
}

// ---------------------------------------------------------------------------------------------
// lines and texts

type textOpts struct {
	escapeToken bool     // allow a whole line "/-/-/-/" (K1 territory for C02)
	headerLike  bool     // allow lines that look like entry headers
	names       []string // names used for header-like lines
	long        bool     // allow a > 64 KiB line (rare)
	maxLines    int
}

var fixedLines = []string{
	"", "", " ", "\t", "a", "b", "abc", "---", "---", "--- ", " ---", "----", "---moredata", "--", "-",
	"[]", "[", "]", "a\rb", "\rstart", "x\ty", "é", "日本", "\xff", "\xfe", "\x80", "a\xffb", "\xc3", "caf\xe9 au lait", "caf\uFFFD au lait", "\uFFFD", "\x00", "\v", "\f",
	"\ufeff", "\ufeffbom first", "{", "}", "key: value", "- item", "#comment", "  indented", "trailing  ", "\"quoted\"", "%d %s %%",
	// (round 7) text about line ends rather than line ends, terminal sequences, invisible characters, dashed lines that are not
	// the terminator, percent signs, the library's own marker texts
	"tr -d \\r", "D:\\work\\r", "\\n", "\x1b[31mred\x1b[0m", "\x1b[1mbold", "10\u00a0km", "1\u202f000", "a\u200db", "\u200fרשימה", "------", "--- FAIL: TestA (0.00s)",
	"|---|---|", "--- # second document", "100% done", "my%20report.pdf", "<Any value>", "<Type:float64>", "\"<Type:string>\"",
	// (round 8) what version control leaves or shows: conflict markers as CONTENT (a snapshot of a merge tool's output)
	"<<<<<<< HEAD\nours\n=======\ntheirs\n>>>>>>> feature/x", "<<<<<<< ours", "=======", ">>>>>>> theirs", "value of type map[string]interface {}",
}

func genLine(t *rapid.T, o textOpts) string {
	k := rapid.IntRange(0, 99).Draw(t, "linekind")
	switch {
	case k < 55:
		return rapid.SampledFrom(fixedLines).Draw(t, "fixed")
	case k < 60 && o.escapeToken:
		return "/-/-/-/"
	case k < 70 && o.headerLike:
		name := "TestA"
		if len(o.names) > 0 {
			name = rapid.SampledFrom(o.names).Draw(t, "hname")
		}
		n := rapid.IntRange(1, 12).Draw(t, "hn")
		switch rapid.IntRange(0, 5).Draw(t, "hshape") {
		case 0:
			return fmt.Sprintf("[%s - %d] ", name, n)
		case 1:
			return fmt.Sprintf(" [%s - %d]", name, n)
		default:
			return fmt.Sprintf("[%s - %d]", name, n)
		}
	case k < 71 && o.maxLines != 1: // a line whose length sits on a buffer-size boundary
		n := rapid.SampledFrom([]int{253, 254, 255, 256, 257, 1023, 1024, 4094, 4095, 4096, 4097, 8192}).Draw(t, "boundarylen")
		return strings.Repeat(rapid.SampledFrom([]string{"y", "-", "é"}).Draw(t, "boundarych"), n)[:n]
	case k < 72 && o.long:
		// (64 KiB and just around it; now and then a line beyond 1 MiB / 4 MiB: a base64 blob, a minified bundle)
		n := rapid.SampledFrom([]int{65535, 65536, 65537, 70000, 131073, 65536, 65537, 131073, 70000, 1<<20 + 5, 4<<20 + 3}).Draw(t, "longlen")
		return strings.Repeat(rapid.SampledFrom([]string{"x", "-", "ab"}).Draw(t, "longch"), n)[:n]
	case k < 85:
		s := rapid.StringN(0, 12, -1).Draw(t, "str")
		return vhStripLine(s)
	default:
		b := rapid.SliceOfN(rapid.Byte(), 0, 8).Draw(t, "bytes")
		return vhStripLine(string(b))
	}
}

// stripLine removes newlines and the documented-limitation shapes (CR at end of line).
func vhStripLine(s string) string {
	s = strings.ReplaceAll(s, "\n", "")
	return strings.TrimRight(s, "\r")
}

// genText draws 0..maxLines lines joined by "\n" (leading/trailing newlines arise from empty lines).
func genText(t *rapid.T, o textOpts) string {
	max := o.maxLines
	if max == 0 {
		max = 6
	}
	n := rapid.IntRange(0, max).Draw(t, "nlines")
	ls := make([]string, n)
	for i := range ls {
		ls[i] = strings.TrimRight(genLine(t, o), "\r")
	}
	// runs of adjacent terminator / escape lines (each line alone is handled differently from a run)
	if rapid.IntRange(0, 7).Draw(t, "termrun") == 0 {
		run := rapid.SampledFrom([][]string{{"---", "---"}, {"---", "---", "---"}, {"---", "", "---"}, {"/-/-/-/", "---"}, {"---", "--- "}}).Draw(t, "run")
		if !o.escapeToken {
			run = []string{"---", "---"}
		}
		pos := rapid.IntRange(0, len(ls)).Draw(t, "runpos")
		ls = append(ls[:pos:pos], append(append([]string{}, run...), ls[pos:]...)...)
	}
	return strings.Join(ls, "\n")
}

// hasTrailingCR reports the documented limitation: a carriage return at the end of a line.
func hasTrailingCR(s string) bool {
	return strings.Contains(s, "\r\n") || strings.HasSuffix(s, "\r")
}

func vhValidUTF8(s string) bool { return utf8.ValidString(s) }

// text features used by the non-trivial rules
func textFeatures(s string) []string {
	var f []string
	ls := strings.Split(s, "\n")
	for _, l := range ls {
		switch {
		case l == "---" || l == "/-/-/-/":
			f = append(f, "terminator_or_escape_line")
		case strings.TrimSpace(l) == "" && len(ls) > 1:
			f = append(f, "blank_line")
		case len(l) > 2 && l[0] == '[' && l[len(l)-1] == ']' && strings.Contains(l, " - "):
			f = append(f, "header_like_line")
		}
		if len(l) > 65536 {
			f = append(f, "line_over_64k")
		}
	}
	if strings.HasPrefix(s, "\n") || strings.HasSuffix(s, "\n") {
		f = append(f, "edge_newline")
	}
	if s == "" {
		f = append(f, "empty_body")
	}
	if !utf8.ValidString(s) {
		f = append(f, "invalid_utf8")
	}
	return vhUniq(f)
}

func vhUniq(in []string) []string {
	seen := map[string]bool{}
	var out []string
	for _, s := range in {
		if !seen[s] {
			seen[s] = true
			out = append(out, s)
		}
	}
	return out
}

// ---------------------------------------------------------------------------------------------
// Go values for MatchSnapshot. A Val is data (JSON-serialisable); Go() builds the value.

type Val struct {
	Kind string   `json:"k"`           // str, nstr (defined string type), int, float, bool, nil, struct, map, slice, ptr, bytes, err
	S    BS       `json:"s,omitempty"` // str / struct field / bytes
	I    int64    `json:"i,omitempty"`
	F    float64  `json:"f,omitempty"`
	B    bool     `json:"b,omitempty"`
	L    []BS     `json:"l,omitempty"` // slice / map values
	Sub  *Val     `json:"sub,omitempty"`
	Keys []string `json:"keys,omitempty"`
}

type demoInner struct {
	Name string
	N    int
}

type demoStruct struct {
	Title string
	Count int64
	Ratio float64
	Flag  bool
	Tags  []string
	Inner *demoInner
	Any   any
}

// demoMarkdown: a defined type of kind string (template.HTML, type Markdown string, ...): formatted like a string
type demoMarkdown string

func (v Val) Go() any {
	switch v.Kind {
	case "str":
		return string(v.S)
	case "nstr":
		return demoMarkdown(v.S)
	case "int":
		return int(v.I)
	case "float":
		return v.F
	case "bool":
		return v.B
	case "nil":
		return nil
	case "bytes":
		return []byte(v.S)
	case "slice":
		out := make([]string, len(v.L))
		for i, s := range v.L {
			out[i] = string(s)
		}
		return out
	case "map":
		m := map[string]string{}
		for i, k := range v.Keys {
			if i < len(v.L) {
				m[k] = string(v.L[i])
			}
		}
		return m
	case "struct":
		ds := demoStruct{Title: string(v.S), Count: v.I, Ratio: v.F, Flag: v.B}
		for _, s := range v.L {
			ds.Tags = append(ds.Tags, string(s))
		}
		if v.Sub != nil {
			ds.Any = v.Sub.Go()
			ds.Inner = &demoInner{Name: string(v.Sub.S), N: int(v.Sub.I)}
		}
		return ds
	case "ptr":
		ds := &demoInner{Name: string(v.S), N: int(v.I)}
		return ds
	case "err":
		return fmt.Errorf("%s", string(v.S))
	}
	panic("Val: unknown kind " + v.Kind)
}

// Text is the formatted text of the value: computed with kr/pretty, a dependency, not code under test.
func (v Val) Text() string { return pretty.Sprint(v.Go()) }

func strVal(s string) Val { return Val{Kind: "str", S: BS(s)} }

func genShortStr(t *rapid.T) BS {
	return BS(vhStripLine(rapid.SampledFrom([]string{"", "a", "hello", "---", "x y", "é", "[TestA - 1]", "tab\there", "q\"uote", "\xff"}).Draw(t, "sstr")))
}

// genStructuredVal draws a non-string value (its formatted text is whatever kr/pretty makes of it).
func genStructuredVal(t *rapid.T) Val {
	switch rapid.IntRange(0, 9).Draw(t, "vkind") {
	case 0:
		return Val{Kind: "int", I: rapid.Int64Range(-1000, 1000).Draw(t, "i")}
	case 1:
		return Val{Kind: "float", F: rapid.SampledFrom([]float64{0, 1.5, -2.25, 1e21, 3.14159}).Draw(t, "f")}
	case 2:
		return Val{Kind: "bool", B: rapid.Bool().Draw(t, "b")}
	case 3:
		return Val{Kind: "nil"}
	case 4:
		n := rapid.IntRange(0, 4).Draw(t, "n")
		l := make([]BS, n)
		for i := range l {
			l[i] = genShortStr(t)
		}
		return Val{Kind: "slice", L: l}
	case 5:
		n := rapid.IntRange(0, 4).Draw(t, "n")
		keys := []string{"k1", "k2", "a", "zz"}[:n]
		l := make([]BS, n)
		for i := range l {
			l[i] = genShortStr(t)
		}
		return Val{Kind: "map", Keys: keys, L: l}
	case 6, 7:
		v := Val{Kind: "struct", S: genShortStr(t), I: rapid.Int64Range(0, 99).Draw(t, "i"), F: 0.5, B: rapid.Bool().Draw(t, "b")}
		n := rapid.IntRange(0, 3).Draw(t, "n")
		for i := 0; i < n; i++ {
			v.L = append(v.L, genShortStr(t))
		}
		if rapid.Bool().Draw(t, "hassub") {
			sub := Val{Kind: "str", S: genShortStr(t), I: 7}
			v.Sub = &sub
		}
		return v
	case 8:
		return Val{Kind: "ptr", S: genShortStr(t), I: rapid.Int64Range(0, 9).Draw(t, "i")}
	default:
		return Val{Kind: "bytes", S: genShortStr(t)}
	}
}

// genStrVal draws a string value whose formatted text has no CR at the end of a line.
// The formatted text is pretty.Sprint(string) – not assumed equal to the string (tabwriter!).
func genStrVal(t *rapid.T, o textOpts, col *collector) Val {
	for i := 0; i < 20; i++ {
		v := strVal(genText(t, o))
		if rapid.IntRange(0, 5).Draw(t, "namedstring") == 0 {
			v.Kind = "nstr" // the same text as a value of a defined string type
		}
		if !hasTrailingCR(v.Text()) {
			return v
		}
		if col != nil {
			col.exclude("cr_at_end_of_line(documented limitation)")
		}
	}
	return strVal("fallback")
}

// genVal: 75 % strings from the text generator, 25 % structured values.
func genVal(t *rapid.T, o textOpts, col *collector) Val {
	if rapid.IntRange(0, 3).Draw(t, "structured") == 0 {
		for i := 0; i < 20; i++ {
			v := genStructuredVal(t)
			if !hasTrailingCR(v.Text()) {
				return v
			}
		}
	}
	return genStrVal(t, o, col)
}

// genUTF8Pair: two texts that differ only in bytes a rune-based comparison maps to U+FFFD
// (invalid bytes, truncated sequences, encoded surrogates) or in such a byte versus a real U+FFFD.
var badSeqs = []string{"\xff", "\xfe", "\x80", "\xe9", "\uFFFD", "\xc3", "\xc3\x28", "\xed\xa0\x80", "\xf8", "\xc0\xaf", "\xf4\x90\x80\x80"}

func genUTF8Pair(t *rapid.T) (string, string) {
	base := rapid.SampledFrom([]string{"", "x", "caf au lait", "a b", "line1\nline2", "k: v", "日本"}).Draw(t, "u8base")
	p := rapid.IntRange(0, len(base)).Draw(t, "u8pos")
	for !utf8.RuneStart(append([]byte(base), 'x')[p]) {
		p--
	}
	i := rapid.IntRange(0, len(badSeqs)-1).Draw(t, "bad1")
	j := rapid.IntRange(0, len(badSeqs)-2).Draw(t, "bad2")
	if j >= i {
		j++
	}
	a := base[:p] + badSeqs[i] + base[p:]
	b := base[:p] + badSeqs[j] + base[p:]
	if rapid.IntRange(0, 4).Draw(t, "u8drop") == 0 {
		b = base[:p] + base[p:] + badSeqs[j]
	}
	return a, b
}
