//go:build verif

// C04 Update mode converges and rewrites only what differs.
package snaps

import (
	"github.com/tidwall/pretty"
	"fmt"
	"os"
	"path/filepath"
	"strings"
	"testing"

	"pgregory.net/rapid"
)

type c04Call struct {
	Old Call `json:"old"`
	New Call `json:"new"` // same API/config as Old; equal value = unchanged call
	// Reject (json / sjson / yaml, New == Old): in the updating run this call is made with an input that is rejected before
	// the comparison ("invalid" text, or a "matcher" on a path the document lacks): it fails, writes nothing - and still is
	// the k-th call: the calls after it rewrite THEIR entries
	Reject string `json:"rejected_in_the_update_run,omitempty"`
}

func (cc c04Call) rejected() Call {
	c := cc.New
	switch cc.Reject {
	case "invalid":
		c.Form = "string"
		c.Doc = `{"a": [1, }`
		if c.API == "yaml" {
			c.Doc = "a: [1\nb: }"
		}
	case "matcher":
		c.Matchers = append(append([]MatcherSpec{}, c.Matchers...), MatcherSpec{Kind: "any", Paths: []string{"no.such.path"}})
		if c.API == "yaml" {
			c.Matchers[len(c.Matchers)-1].Paths = []string{"$.no.such.path"}
		}
	}
	return c
}

type c04Test struct {
	Name  string    `json:"name"`
	Calls []c04Call `json:"calls"`
}

type c04Case struct {
	Cfg       CfgSpec   `json:"cfg"`
	Extra     []Entry   `json:"extra_initial"`
	Tests     []c04Test `json:"tests"`
	UpdateEnv string    `json:"update_env"`    // UPDATE_SNAPS of the updating process
	UpdateOpt *bool     `json:"update_option"` // Update option of the updating process
	Mode3     Mode      `json:"mode3"`
	Upd3      *bool     `json:"update_option3"`
	// JSON2: the updating and the read-only process build their Configs with these JSON options (the project changed
	// indent / width / key sorting since the snapshots were recorded): the formatted value of JSON calls changes with them
	JSON2 *JSONCfg `json:"json_options_of_the_update_run,omitempty"`
	// Leftover: next to the multi-entry file lies `<file>.tmp`, longer than the file (what an interrupted run of some tool left
	// behind). Whatever happens to that file, the snapshot file holds exactly the entries and nothing else
	Leftover bool `json:"leftover_tmp_file_next_to_the_snapshot_file,omitempty"`
	// CRLF: after the recording run the multi-entry file is converted to CRLF line ends (a checkout with core.autocrlf)
	CRLF bool `json:"file_converted_to_crlf,omitempty"`
}

// fullKey: identity of the stored text for all five APIs.
func fullKey(c Call) string {
	switch c.API {
	case "ssnap":
		return "ss:" + c.snapText()
	case "sjson":
		n, _ := parseJNode(string(c.Doc))
		return "sj:" + n.Canon()
	}
	return vkeyOf(c)
}

// slotCounter assigns slots the way the statement says: multi-entry ordinals per (file, test),
// standalone ordinals per (test, resolved file pattern).
type slotCounter struct {
	multi map[string]int
	solo  map[string]int
}

func newSlotCounter() *slotCounter {
	return &slotCounter{multi: map[string]int{}, solo: map[string]int{}}
}

// slot returns (relative file path, entry id or "" for standalone).
func (s *slotCounter) slot(cfg CfgSpec, test string, c Call) (string, string) {
	if c.standalone() {
		pat := cfg.standalonePath(test, 0, c.API == "sjson")
		s.solo[pat]++
		return cfg.standalonePath(test, s.solo[pat], c.API == "sjson"), ""
	}
	p := cfg.multiPath()
	s.multi[p+"\x00"+test]++
	return p, entryID(test, s.multi[p+"\x00"+test])
}

func genAnyCall(t *rapid.T, api string, o textOpts, col *collector) Call {
	switch api {
	case "ssnap":
		v := strVal(genText(t, o))
		if rapid.IntRange(0, 9).Draw(t, "big") == 0 {
			v = strVal(bigText(t))
		}
		if rapid.IntRange(0, 3).Draw(t, "structured") == 0 {
			v = genStructuredVal(t)
		}
		return Call{API: "ssnap", Vals: []Val{v}}
	case "sjson":
		n := genJRoot(t, 2)
		form := rapid.SampledFrom([]string{"string", "bytes", "value"}).Draw(t, "form")
		if n.K == "str" {
			form = "string"
		}
		return Call{API: "sjson", Doc: BS(n.Compact()), Form: form}
	}
	return genSlotCall(t, ProgSlot{API: api}, o, col)
}

// genChanged draws a new value for the slot: shorter, longer, empty, multi-line, terminator-like…
func genChanged(t *rapid.T, old Call, o textOpts, col *collector) Call {
	switch old.API {
	case "snap", "ssnap":
		if old.Vals[0].Kind == "str" && rapid.Bool().Draw(t, "derive") {
			s := string(old.Vals[0].S)
			var n string
			switch rapid.IntRange(0, 6).Draw(t, "how") {
			case 0:
				n = ""
			case 1:
				n = s + "\nlonger tail\n---\n[TestA - 1]\nmore"
			case 2:
				if len(s) > 1 {
					n = s[:len(s)/2]
				} else {
					n = "s"
				}
			case 3:
				n = "---"
			case 4:
				n = s + "\n"
			case 5: // same length, one byte changed (41 -> 42)
				if len(s) > 0 {
					b := []byte(s)
					i := rapid.IntRange(0, len(b)-1).Draw(t, "samelen")
					if b[i] != '\n' && b[i] != '\r' {
						if b[i] == 'x' {
							b[i] = 'y'
						} else {
							b[i] = 'x'
						}
					}
					n = string(b)
				} else {
					n = "x"
				}
			default:
				n = mutateText(t, s, o)
			}
			n = vhStripCR(n)
			return Call{API: old.API, Cfg: old.Cfg, Vals: []Val{strVal(n)}}
		}
	}
	return genAnyCall(t, old.API, o, col)
}

func vhStripCR(s string) string {
	out := []byte{}
	for i := 0; i < len(s); i++ {
		if s[i] == '\r' && (i+1 == len(s) || s[i+1] == '\n') {
			continue
		}
		out = append(out, s[i])
	}
	return string(out)
}

func genC04(t *rapid.T) c04Case {
	col := getCollector("C04", "TestC04_Update")
	ntests := rapid.IntRange(1, 3).Draw(t, "ntests")
	names := withOtherRunners(t, genNamePool(t, ntests+1))
	o := textOpts{escapeToken: true, headerLike: true, names: names, maxLines: 5, long: true}
	c := c04Case{Cfg: CfgSpec{Dir: "snaps", Filename: "f"}}
	if rapid.IntRange(0, 3).Draw(t, "ext") == 0 {
		c.Cfg.Ext = ".x"
	}
	if rapid.IntRange(0, 3).Draw(t, "deffile") == 0 {
		c.Cfg.Filename = ""
	}
	seen := map[string]bool{}
	for i := rapid.IntRange(0, 3).Draw(t, "nextra"); i > 0; i-- {
		id := entryID(names[ntests], rapid.IntRange(1, 11).Draw(t, "eord"))
		if !seen[id] {
			seen[id] = true
			c.Extra = append(c.Extra, Entry{ID: BS(id), Body: BS(vhStripCR(refEscape(genText(t, o))))})
		}
	}
	for i := 0; i < ntests; i++ {
		tc := c04Test{Name: names[i]}
		n := rapid.IntRange(1, 6).Draw(t, "ncalls")
		if rapid.IntRange(0, 8).Draw(t, "long") == 0 {
			n = rapid.IntRange(10, 12).Draw(t, "ncalls10")
		}
		for k := 0; k < n; k++ {
			api := rapid.SampledFrom([]string{"snap", "snap", "snap", "json", "yaml", "ssnap", "sjson"}).Draw(t, "api")
			old := genAnyCall(t, api, o, col)
			if api == "snap" && hasTrailingCR(old.snapText()) {
				old = Call{API: "snap", Vals: []Val{strVal("plain")}}
			}
			nw := old
			if rapid.IntRange(0, 2).Draw(t, "changed") > 0 {
				nw = genChanged(t, old, o, col)
				if nw.API == "snap" && hasTrailingCR(nw.snapText()) {
					nw = old
				}
			}
			cc := c04Call{Old: old, New: nw}
			if (api == "json" || api == "sjson" || api == "yaml") && rapid.IntRange(0, 3).Draw(t, "reject") == 0 {
				cc.New, cc.Reject = old, rapid.SampledFrom([]string{"invalid", "matcher"}).Draw(t, "rejectkind")
			}
			tc.Calls = append(tc.Calls, cc)
		}
		c.Tests = append(c.Tests, tc)
	}
	if rapid.Bool().Draw(t, "byenv") {
		c.UpdateEnv = "true"
		if rapid.IntRange(0, 3).Draw(t, "alsoopt") == 0 {
			c.UpdateOpt = vhBoolp(true)
		}
	} else {
		c.UpdateOpt = vhBoolp(true)
		c.UpdateEnv = rapid.SampledFrom([]string{"", "clean", "false", "1"}).Draw(t, "env")
	}
	c.Mode3, c.Upd3 = genReadOnlyMode(t)
	c.CRLF = rapid.IntRange(0, 4).Draw(t, "crlf") == 0
	c.Leftover = rapid.IntRange(0, 3).Draw(t, "leftover") == 0
	if rapid.IntRange(0, 3).Draw(t, "json2") == 0 {
		c.JSON2 = &JSONCfg{Width: rapid.SampledFrom([]int{80, 20, 200}).Draw(t, "w2"), Indent: rapid.SampledFrom([]string{"  ", "\t", " ", ""}).Draw(t, "i2"), SortKeys: rapid.Bool().Draw(t, "s2")}
		for ti := range c.Tests {
			for ci := range c.Tests[ti].Calls {
				c.Tests[ti].Calls[ci].Reject = "" // (an entry the update run does not rewrite keeps the old options' layout)
				for _, call := range []*Call{&c.Tests[ti].Calls[ci].Old, &c.Tests[ti].Calls[ci].New} {
					if (call.API == "json" || call.API == "sjson") && call.Form == "value" {
						call.Form = "string" // the text form keeps the member order the options may or may not sort
					}
				}
			}
		}
	}
	return c
}

func checkC04(c c04Case) error {
	root := scratchDir()
	defer os.RemoveAll(root)
	multi := filepath.Join(root, c.Cfg.multiPath())
	if len(c.Extra) > 0 {
		os.MkdirAll(filepath.Dir(multi), 0o755)
		os.WriteFile(multi, []byte(refRender(c.Extra)), 0o644)
	}

	// standalone calls go through a config without Filename (a fixed Filename is shared by all tests)
	soloSpec := c.Cfg
	soloSpec.Filename = ""
	pick := func(call Call, multi, solo *Config) *Config {
		if call.standalone() {
			return solo
		}
		return multi
	}

	// process 1: record the old values
	newProcess(Mode{})
	cfg, solo := c.Cfg.build(root), soloSpec.build(root)
	for _, tc := range c.Tests {
		ft := newFakeT(tc.Name)
		for k, cc := range tc.Calls {
			r := cc.Old.invoke(pick(cc.Old, cfg, solo), ft)
			if out, err := outcomeOf(r); err != nil || out != oAdded {
				return fmt.Errorf("recording %s call %d: outcome %q err %v errors=%q", tc.Name, k+1, out, err, vhClipAll(r.Errors))
			}
		}
		ft.finish()
	}
	expected, err := refParse(vhReadFile(multi))
	if err != nil && vhReadFile(multi) != "" {
		return fmt.Errorf("file after recording is not well formed: %v", err)
	}

	if data := vhReadFile(multi); c.Leftover && data != "" {
		os.WriteFile(multi+".tmp", []byte(data+data+"\n[TestLeftover - 1]\nresidue of an interrupted run "+strings.Repeat("x", 300)+"\n---\n"), 0o644)
	}
	crlf := false
	if data := vhReadFile(multi); c.CRLF && data != "" && !strings.Contains(data, "\r") {
		os.WriteFile(multi, []byte(strings.ReplaceAll(data, "\n", "\r\n")), 0o644)
		crlf = true
	}
	lf := func(s string) string {
		if crlf {
			return strings.ReplaceAll(s, "\r\n", "\n") // line ends are not part of what a snapshot holds
		}
		return s
	}

	// the formatted value of a JSON call under given options, computed with tidwall/pretty (a dependency, as kr/pretty for
	// MatchSnapshot values): nil options = the library's defaults (sorted keys, one blank of indent, no width)
	jsonText := func(call Call, o *JSONCfg) string {
		po := &pretty.Options{SortKeys: true, Indent: " "} // snaps/matchJSON.go defaultPrettyJSONOptions (no Width)
		if o != nil {
			po = &pretty.Options{SortKeys: o.SortKeys, Indent: o.Indent, Width: o.Width}
		}
		return strings.TrimSuffix(string(pretty.PrettyOptions([]byte(call.Doc), po)), "\n")
	}
	isJSON := func(call Call) bool {
		return (call.API == "json" || call.API == "sjson") && len(call.Matchers) == 0
	}

	// process 2: updating enabled
	newProcess(Mode{Update: c.UpdateEnv})
	spec := c.Cfg
	spec.Update = c.UpdateOpt
	if c.JSON2 != nil {
		spec.JSON, soloSpec.JSON = c.JSON2, c.JSON2
	}
	cfg = spec.build(root)
	soloSpec.Update = c.UpdateOpt
	solo = soloSpec.build(root)
	for _, tc := range c.Tests {
		ft := newFakeT(tc.Name)
		sc := newSlotCounter()
		for k, cc := range tc.Calls {
			slotSpec := c.Cfg
			if cc.New.standalone() {
				slotSpec = soloSpec
			}
			file, id := sc.slot(slotSpec, tc.Name, cc.New)
			ageDir(root)
			before := snapDir(root)
			if cc.Reject != "" {
				r := cc.rejected().invoke(pick(cc.New, cfg, solo), ft)
				if out, err := outcomeOf(r); err != nil || out != oFailed {
					return fmt.Errorf("update run %s call %d (%s, input rejected: %s): outcome %q err %v, want failed", tc.Name, k+1, cc.New.API, cc.Reject, out, err)
				}
				if d := diffDirs(before, snapDir(root), true); d != "" {
					return fmt.Errorf("update run %s call %d (%s): the rejected call wrote: %s", tc.Name, k+1, cc.New.API, d)
				}
				continue
			}
			r := cc.New.invoke(pick(cc.New, cfg, solo), ft)
			after := snapDir(root)
			out, err := outcomeOf(r)
			if err != nil {
				return fmt.Errorf("update run %s call %d: %v", tc.Name, k+1, err)
			}
			changed := fullKey(cc.Old) != fullKey(cc.New)
			if c.JSON2 != nil && isJSON(cc.Old) && isJSON(cc.New) {
				changed = jsonText(cc.Old, c.Cfg.JSON) != jsonText(cc.New, c.JSON2)
			}
			if !changed {
				if out != oPassed {
					return fmt.Errorf("update run %s call %d (%s, value unchanged): outcome %s, want passed; errors=%q", tc.Name, k+1, cc.New.API, out, vhClipAll(r.Errors))
				}
				if d := diffDirs(before, after, true); d != "" {
					return fmt.Errorf("update run %s call %d (%s): value already matches but the call wrote: %s", tc.Name, k+1, cc.New.API, d)
				}
				continue
			}
			if out != oUpdated {
				return fmt.Errorf("update run %s call %d (%s, value changed): outcome %s, want updated; errors=%q logs=%q", tc.Name, k+1, cc.New.API, out, vhClipAll(r.Errors), vhClipAll(r.Logs))
			}
			// exactly the addressed file changed
			for p, b := range before {
				if strings.HasSuffix(p, ".tmp") {
					continue // (the leftover is nobody's: not demanded to survive)
				}
				a, ok := after[p]
				if !ok {
					return fmt.Errorf("update run %s call %d: %q disappeared", tc.Name, k+1, p)
				}
				if p != file && !b.IsDir && (a.Data != b.Data || !a.Mtime.Equal(b.Mtime)) {
					return fmt.Errorf("update run %s call %d (%s) addressed %q but %q was written", tc.Name, k+1, cc.New.API, file, p)
				}
			}
			for p := range after {
				if _, ok := before[p]; !ok {
					return fmt.Errorf("update run %s call %d: %q was created by an update", tc.Name, k+1, p)
				}
			}
			if id == "" {
				got := after[file].Data
				switch cc.New.API {
				case "ssnap":
					if want := cc.New.snapText(); got != want {
						return fmt.Errorf("update run %s call %d: standalone file %q holds %q, want exactly the new formatted value %q", tc.Name, k+1, file, vhClip(got), vhClip(want))
					}
				case "sjson":
					if err := checkStandaloneJSON(got, string(cc.New.Doc)); err != nil {
						return fmt.Errorf("update run %s call %d: standalone file %q: %v", tc.Name, k+1, file, err)
					}
					if c.JSON2 != nil && isJSON(cc.New) && got != jsonText(cc.New, c.JSON2) {
						return fmt.Errorf("update run %s call %d: standalone file %q holds %q, the document formatted with the options of this run is %q", tc.Name, k+1, file, vhClip(got), vhClip(jsonText(cc.New, c.JSON2)))
					}
				}
				continue
			}
			idx := findEntry(expected, id)
			if idx < 0 {
				return fmt.Errorf("harness: slot %q missing from the expected list", id)
			}
			got, perr := refParse(lf(after[file].Data))
			if perr != nil {
				return fmt.Errorf("update run %s call %d: after rewriting %q the file is not well formed (residue?): %v; content %q", tc.Name, k+1, id, perr, vhClip(after[file].Data))
			}
			if len(got) != len(expected) {
				return fmt.Errorf("update run %s call %d: rewriting %q changed the entry list: before %s | after %s", tc.Name, k+1, id, describeEntries(expected), describeEntries(got))
			}
			for i := range got {
				if got[i].ID != expected[i].ID {
					return fmt.Errorf("update run %s call %d: rewriting %q reordered entries: before %s | after %s", tc.Name, k+1, id, describeEntries(expected), describeEntries(got))
				}
				if i == idx {
					if err := checkStoredBody(cc.New, string(got[i].Body)); err != nil {
						return fmt.Errorf("update run %s call %d: rewritten entry %q: %v", tc.Name, k+1, id, err)
					}
					if c.JSON2 != nil && isJSON(cc.New) && string(got[i].Body) != jsonText(cc.New, c.JSON2) {
						return fmt.Errorf("update run %s call %d: rewritten entry %q holds %q, the document formatted with the options of this run is %q", tc.Name, k+1, id, vhClip(string(got[i].Body)), vhClip(jsonText(cc.New, c.JSON2)))
					}
					continue
				}
				if got[i].Body != expected[i].Body {
					return fmt.Errorf("update run %s call %d: rewriting %q changed entry %q: %q -> %q", tc.Name, k+1, id, got[i].ID, vhClip(string(expected[i].Body)), vhClip(string(got[i].Body)))
				}
			}
			expected = got
		}
		ft.finish()
	}

	// process 3: read-only replay of the new values
	newProcess(c.Mode3)
	spec = c.Cfg
	spec.Update = c.Upd3
	if c.JSON2 != nil {
		spec.JSON = c.JSON2
	}
	cfg = spec.build(root)
	soloSpec.Update = c.Upd3
	solo = soloSpec.build(root)
	ageDir(root)
	before := snapDir(root)
	for _, tc := range c.Tests {
		ft := newFakeT(tc.Name)
		for k, cc := range tc.Calls {
			r := cc.New.invoke(pick(cc.New, cfg, solo), ft)
			out, err := outcomeOf(r)
			if err != nil || out != oPassed {
				return fmt.Errorf("read-only run after the update: %s call %d (%s): outcome %q err %v errors=%q", tc.Name, k+1, cc.New.API, out, err, vhClipAll(r.Errors))
			}
		}
		ft.finish()
	}
	if d := diffDirs(before, snapDir(root), true); d != "" {
		return fmt.Errorf("read-only run after the update wrote: %s", d)
	}
	return nil
}

// checkStandaloneJSON: the file holds valid JSON with the value of doc and no trailing newline.
func checkStandaloneJSON(got, doc string) error {
	g, err := parseJNode(got)
	if err != nil {
		return fmt.Errorf("content is not valid JSON: %v: %q", err, vhClip(got))
	}
	w, _ := parseJNode(doc)
	if g.Canon() != w.Canon() {
		return fmt.Errorf("content %q is not the value of %q", vhClip(got), vhClip(doc))
	}
	if len(got) > 0 && got[len(got)-1] == '\n' {
		return fmt.Errorf("content ends with an added newline: %q", vhClip(got))
	}
	return nil
}

func classifyC04(c c04Case) ([]string, bool) {
	if c.CRLF {
		cls0, nt0 := classifyC04Base(c)
		return append(cls0, "file_converted_to_crlf_before_the_update"), nt0
	}
	return classifyC04Base(c)
}

func classifyC04Base(c c04Case) ([]string, bool) {
	var cls []string
	changedEntries := 0
	for _, tc := range c.Tests {
		multiIdx := 0
		nmulti := 0
		for _, cc := range tc.Calls {
			if !cc.New.standalone() {
				nmulti++
			}
		}
		for _, cc := range tc.Calls {
			changed := fullKey(cc.Old) != fullKey(cc.New)
			if !cc.New.standalone() {
				multiIdx++
			}
			if cc.Reject != "" {
				cls = append(cls, "call_rejected_in_the_update_run_"+cc.Reject)
				continue
			}
			if !changed {
				cls = append(cls, "unchanged_call")
				continue
			}
			if cc.New.standalone() {
				cls = append(cls, "standalone_update")
				continue
			}
			changedEntries++
			if multiIdx < nmulti {
				cls = append(cls, "changed_non_last_entry")
			}
			if len(fullKey(cc.New)) < len(fullKey(cc.Old)) {
				cls = append(cls, "shorter_new_body")
			} else {
				cls = append(cls, "longer_new_body")
			}
			for _, f := range textFeatures(callText(cc.New)) {
				cls = append(cls, "new_"+f)
			}
			for _, f := range textFeatures(callText(cc.Old)) {
				cls = append(cls, "old_"+f)
			}
		}
	}
	if changedEntries >= 2 {
		cls = append(cls, "two_or_more_changed_entries")
	}
	if c.UpdateOpt != nil && c.UpdateEnv != "true" {
		cls = append(cls, "update_by_option")
	} else {
		cls = append(cls, "update_by_env")
	}
	cls = vhUniq(cls)
	nt := false
	for _, k := range cls {
		switch k {
		case "shorter_new_body", "two_or_more_changed_entries", "changed_non_last_entry", "standalone_update":
			nt = true
		}
	}
	return cls, nt
}

func TestC04_Update(t *testing.T) {
	prop[c04Case]{property: "C04", gen: genC04, check: checkC04, classify: classifyC04}.run(t)
}

// bigText: a few KiB of lines, so that snapshot files exceed the 4 KiB read chunk of bufio.Scanner.
func bigText(t *rapid.T) string {
	n := rapid.IntRange(40, 160).Draw(t, "biglines")
	var sb strings.Builder
	for i := 0; i < n; i++ {
		fmt.Fprintf(&sb, "line %03d %s\n", i, strings.Repeat(rapid.SampledFrom([]string{"x", "ab", "-"}).Draw(t, "bigch"), rapid.IntRange(0, 60).Draw(t, "biglen")))
	}
	return sb.String()
}
