//go:build verif

// C13 The failure report is empty only for identical text and shows the true edit.
package snaps

import (
	"fmt"
	"strconv"
	"strings"
	"testing"

	"github.com/gkampitakis/go-snaps/internal/colors"
	"github.com/gkampitakis/go-snaps/internal/difflib"
	"pgregory.net/rapid"
)

type diffCase struct {
	A     BS   `json:"a"`
	B     BS   `json:"b"`
	Color bool `json:"color"`
	// AfterBigKiB > 0: right before this comparison the process made another failing comparison of two texts of that many
	// KiB each (a big export); the report of this pair must be the one it gets in isolation
	AfterBigKiB int `json:"after_big_comparison_kib,omitempty"`
}

func vhLinesOf(s string) []string { return strings.Split(s, "\n") }

// ---- R3: positional parse of the NO_COLOR report -------------------------------------------------

type parsedReport struct {
	deleted, inserted int // header counts
	dels, ins         []string
	equals            int
	ranges            int
}

func parseReport(rep string) (*parsedReport, error) {
	if !strings.HasPrefix(rep, "\n") {
		return nil, fmt.Errorf("report does not start with a newline")
	}
	rest := rep[1:]
	nl := strings.IndexByte(rest, '\n')
	if nl < 0 {
		return nil, fmt.Errorf("no header line")
	}
	h1 := rest[:nl]
	rest = rest[nl+1:]
	nl = strings.IndexByte(rest, '\n')
	if nl < 0 {
		return nil, fmt.Errorf("no second header line")
	}
	h2 := rest[:nl]
	rest = rest[nl+1:]
	p := &parsedReport{}
	var err error
	if p.deleted, err = vhHeaderCount(h1, "- Snapshot ", "- "); err != nil {
		return nil, err
	}
	if p.inserted, err = vhHeaderCount(h2, "+ Received ", "+ "); err != nil {
		return nil, err
	}
	if !strings.HasPrefix(rest, "\n") {
		return nil, fmt.Errorf("no blank line after the header")
	}
	rest = rest[1:]
	// the body is the diff (every diff line ends with \n) followed by one "\n"
	if !strings.HasSuffix(rest, "\n\n") && rest != "\n" {
		return nil, fmt.Errorf("body does not end with a blank line: %q", vhClip(rest))
	}
	body := strings.TrimSuffix(rest, "\n")
	if body == "" {
		return p, nil
	}
	body = strings.TrimSuffix(body, "\n")
	ls := strings.Split(body, "\n")
	for i := 0; i < len(ls); i++ {
		l := ls[i]
		switch {
		case strings.HasPrefix(l, "@@ -") && strings.HasSuffix(l, " @@"):
			p.ranges++
			if i+1 >= len(ls) || ls[i+1] != "" {
				return nil, fmt.Errorf("range line not followed by a blank line")
			}
			i++
		case strings.HasPrefix(l, "- "):
			p.dels = append(p.dels, l[2:])
		case strings.HasPrefix(l, "+ "):
			p.ins = append(p.ins, l[2:])
		case strings.HasPrefix(l, "  "):
			p.equals++
		default:
			return nil, fmt.Errorf("body line %d has no diff prefix: %q", i, vhClip(l))
		}
	}
	return p, nil
}

func vhHeaderCount(h, prefix, sign string) (int, error) {
	if !strings.HasPrefix(h, prefix) {
		return 0, fmt.Errorf("header %q does not start with %q", h, prefix)
	}
	r := strings.TrimLeft(h[len(prefix):], " ")
	if !strings.HasPrefix(r, sign) {
		return 0, fmt.Errorf("header %q has no %q", h, sign)
	}
	n, err := strconv.Atoi(r[len(sign):])
	if err != nil {
		return 0, fmt.Errorf("header %q: %v", h, err)
	}
	return n, nil
}

// removable decides whether removing dels (in order) from a and ins (in order) from b can leave
// equal sequences. State (i, j, d): p = j - (i - d).
func vhRemovable(a, b, dels, ins []string) bool {
	if len(a)-len(dels) != len(b)-len(ins) || len(a) < len(dels) || len(b) < len(ins) {
		return false
	}
	type st struct{ i, j, d int }
	seen := map[st]bool{}
	var rec func(i, j, d int) bool
	rec = func(i, j, d int) bool {
		p := j - (i - d)
		if p < 0 || p > len(ins) || d > len(dels) {
			return false
		}
		if i == len(a) && j == len(b) {
			return d == len(dels) && p == len(ins)
		}
		k := st{i, j, d}
		if seen[k] {
			return false
		}
		seen[k] = true
		if i < len(a) && j < len(b) && a[i] == b[j] && rec(i+1, j+1, d) {
			return true
		}
		if i < len(a) && d < len(dels) && a[i] == dels[d] && rec(i+1, j, d+1) {
			return true
		}
		if j < len(b) && p < len(ins) && b[j] == ins[p] && rec(i, j+1, d) {
			return true
		}
		return false
	}
	return rec(0, 0, 0)
}

// ---- R4: the line edit script ----------------------------------------------------------------------

func vhWithNL(ls []string) []string {
	out := make([]string, len(ls))
	for i, l := range ls {
		out[i] = l + "\n"
	}
	return out
}

func checkScript(al, bl []string) error {
	big := len(al) + len(bl) + 5
	groups := difflib.NewMatcher(al, bl).GetGroupedOpCodes(big)
	same := len(al) == len(bl)
	if same {
		for i := range al {
			if al[i] != bl[i] {
				same = false
				break
			}
		}
	}
	if len(groups) == 0 {
		if !same {
			return fmt.Errorf("R4: no opcodes for different sequences")
		}
		return nil
	}
	if len(groups) != 1 {
		return fmt.Errorf("R4: %d groups with unbounded context", len(groups))
	}
	full := groups[0]
	i, j := 0, 0
	var out []string
	for _, c := range full {
		if c.I1 != i || c.J1 != j {
			return fmt.Errorf("R4: opcode %+v does not continue at (%d,%d): script does not tile the texts", c, i, j)
		}
		if c.I2 < c.I1 || c.J2 < c.J1 || c.I2 > len(al) || c.J2 > len(bl) {
			return fmt.Errorf("R4: opcode %+v out of range", c)
		}
		switch c.Tag {
		case difflib.OpEqual:
			if c.I2-c.I1 != c.J2-c.J1 || c.I2 == c.I1 {
				return fmt.Errorf("R4: equal opcode %+v has unequal or empty ranges", c)
			}
			for k := 0; k < c.I2-c.I1; k++ {
				if al[c.I1+k] != bl[c.J1+k] {
					return fmt.Errorf("R4: opcode %+v marks %q and %q as equal", c, al[c.I1+k], bl[c.J1+k])
				}
			}
			out = append(out, al[c.I1:c.I2]...)
		case difflib.OpDelete:
			if c.I2 == c.I1 || c.J2 != c.J1 {
				return fmt.Errorf("R4: malformed delete %+v", c)
			}
		case difflib.OpInsert:
			if c.I2 != c.I1 || c.J2 == c.J1 {
				return fmt.Errorf("R4: malformed insert %+v", c)
			}
			out = append(out, bl[c.J1:c.J2]...)
		case difflib.OpReplace:
			if c.I2 == c.I1 || c.J2 == c.J1 {
				return fmt.Errorf("R4: malformed replace %+v", c)
			}
			out = append(out, bl[c.J1:c.J2]...)
		default:
			return fmt.Errorf("R4: unknown tag %+v", c)
		}
		i, j = c.I2, c.J2
	}
	if i != len(al) || j != len(bl) {
		return fmt.Errorf("R4: script ends at (%d,%d), texts have (%d,%d) lines", i, j, len(al), len(bl))
	}
	if len(out) != len(bl) {
		return fmt.Errorf("R4: replaying the script yields %d lines, want %d", len(out), len(bl))
	}
	for k := range out {
		if out[k] != bl[k] {
			return fmt.Errorf("R4: replaying the script differs at line %d", k)
		}
	}
	// hunks with the context the report uses
	const n = 3
	hunks := difflib.NewMatcher(al, bl).GetGroupedOpCodes(n)
	type key struct {
		tag            int8
		i1, i2, j1, j2 int
	}
	seen := map[key]int{}
	li, lj := 0, 0
	for gi, g := range hunks {
		if len(g) == 0 {
			return fmt.Errorf("R4: empty hunk %d", gi)
		}
		for ci, c := range g {
			if c.I1 < li || c.J1 < lj {
				return fmt.Errorf("R4: hunk %d opcode %+v overlaps or is out of order", gi, c)
			}
			if ci > 0 && (c.I1 != g[ci-1].I2 || c.J1 != g[ci-1].J2) {
				return fmt.Errorf("R4: hunk %d is not contiguous at %+v", gi, c)
			}
			li, lj = c.I2, c.J2
			if c.Tag == difflib.OpEqual {
				if (ci == 0 || ci == len(g)-1) && c.I2-c.I1 > n {
					return fmt.Errorf("R4: hunk %d has %d context lines", gi, c.I2-c.I1)
				}
				if c.I2-c.I1 != c.J2-c.J1 {
					return fmt.Errorf("R4: hunk equal opcode %+v has unequal ranges", c)
				}
				for k := 0; k < c.I2-c.I1; k++ {
					if al[c.I1+k] != bl[c.J1+k] {
						return fmt.Errorf("R4: hunk opcode %+v marks different lines as equal", c)
					}
				}
				continue
			}
			seen[key{c.Tag, c.I1, c.I2, c.J1, c.J2}]++
		}
	}
	for _, c := range full {
		if c.Tag == difflib.OpEqual {
			continue
		}
		if seen[key{c.Tag, c.I1, c.I2, c.J1, c.J2}] != 1 {
			return fmt.Errorf("R4: changed range %+v appears in %d hunks", c, seen[key{c.Tag, c.I1, c.I2, c.J1, c.J2}])
		}
	}
	nfull := 0
	for _, c := range full {
		if c.Tag != difflib.OpEqual {
			nfull++
		}
	}
	if len(seen) != nfull {
		return fmt.Errorf("R4: hunks contain %d changed ranges, the full script %d", len(seen), nfull)
	}
	return nil
}

// ---- the property -----------------------------------------------------------------------------------

func checkDiffCase(c diffCase) error {
	a, b := string(c.A), string(c.B)
	colors.NOCOLOR = !c.Color
	defer func() { colors.NOCOLOR = true }()

	if c.AfterBigKiB > 0 {
		alone := prettyDiff(a, b, "", 0)
		line := strings.Repeat("0123456789abcdef", 2048) // 32 KiB
		var bigA, bigB []string
		for i := 0; i*32 < c.AfterBigKiB; i++ {
			bigA = append(bigA, fmt.Sprintf("%04d %s", i, line))
			bigB = append(bigB, fmt.Sprintf("%04d %s", i, line))
		}
		bigB[len(bigB)/2] = "changed line of the big text"
		if r := prettyDiff(strings.Join(bigA, "\n"), strings.Join(bigB, "\n"), "", 0); r == "" {
			return fmt.Errorf("R1: empty report for two different big texts")
		}
		if after := prettyDiff(a, b, "", 0); after != alone {
			return fmt.Errorf("the report of a pair depends on the comparison made before it (two texts of %d KiB each):\nalone %q\nafter %q", c.AfterBigKiB, vhClip(alone), vhClip(after))
		}
	}
	rep := prettyDiff(a, b, "", 0)
	// R1
	if (rep == "") != (a == b) {
		if a == b {
			return fmt.Errorf("R1: non-empty report for identical texts: %q", vhClip(rep))
		}
		return fmt.Errorf("R1: empty report for different texts a=%q b=%q", vhClip(a), vhClip(b))
	}
	// the footer variant must agree on emptiness
	rep2 := prettyDiff(a, b, "x.snap", 7)
	if (rep2 == "") != (a == b) {
		return fmt.Errorf("R1: report with footer: empty=%v for a==b %v", rep2 == "", a == b)
	}
	al, bl := vhLinesOf(a), vhLinesOf(b)
	if !c.Color && rep != "" {
		// R2
		if !strings.Contains(a, "\x1b") && !strings.Contains(b, "\x1b") && strings.Contains(rep, "\x1b") {
			return fmt.Errorf("R2: escape sequence in NO_COLOR report: %q", vhClip(rep))
		}
		// R3
		p, err := parseReport(rep)
		if err != nil {
			return fmt.Errorf("R3: %v; report %q", err, vhClip(rep))
		}
		if p.deleted != len(p.dels) || p.inserted != len(p.ins) {
			return fmt.Errorf("R3: header says -%d +%d, body shows -%d +%d; report %q", p.deleted, p.inserted, len(p.dels), len(p.ins), vhClip(rep))
		}
		inA, inB := map[string]bool{}, map[string]bool{}
		for _, l := range al {
			inA[l] = true
		}
		for _, l := range bl {
			inB[l] = true
		}
		for _, l := range p.dels {
			if !inA[l] {
				return fmt.Errorf("R3: '-' line %q is not a line of the stored text", vhClip(l))
			}
		}
		for _, l := range p.ins {
			if !inB[l] {
				return fmt.Errorf("R3: '+' line %q is not a line of the received text", vhClip(l))
			}
		}
		if len(p.dels)+len(p.ins) == 0 {
			return fmt.Errorf("R3: non-empty report without any changed line: %q", vhClip(rep))
		}
		if !vhRemovable(al, bl, p.dels, p.ins) {
			return fmt.Errorf("R3: removing the '-' lines from the stored and the '+' lines from the received text does not leave the same lines; report %q", vhClip(rep))
		}
	}
	// R4 on the sequences the report is built from
	return checkScript(vhWithNL(al), vhWithNL(bl))
}

func classifyDiffCase(c diffCase) ([]string, bool) {
	if c.AfterBigKiB > 0 {
		cls0, nt0 := classifyDiffCaseBase(diffCase{A: c.A, B: c.B, Color: c.Color})
		return append(cls0, "after_a_big_comparison"), nt0 || c.A != c.B
	}
	return classifyDiffCaseBase(c)
}

func classifyDiffCaseBase(c diffCase) ([]string, bool) {
	a, b := string(c.A), string(c.B)
	var cls []string
	if c.Color {
		cls = append(cls, "color")
	} else {
		cls = append(cls, "nocolor")
	}
	if a == b {
		return append(cls, "identical"), false
	}
	al, bl := vhLinesOf(a), vhLinesOf(b)
	nt := false
	if len(al) > 10 || len(bl) > 10 {
		cls = append(cls, "over_10_lines")
		nt = true
	}
	if len(al) >= 200 || len(bl) >= 200 {
		cls = append(cls, "over_200_lines")
	}
	rep := map[string]int{}
	for _, l := range al {
		rep[l]++
	}
	for _, l := range bl {
		rep[l]++
	}
	for _, n := range rep {
		if n > 2 {
			cls = append(cls, "repeated_lines")
			nt = true
			break
		}
	}
	if strings.Join(strings.Fields(a), "") == strings.Join(strings.Fields(b), "") {
		cls = append(cls, "whitespace_only_difference")
		nt = true
	}
	if !vhValidUTF8(a) || !vhValidUTF8(b) {
		cls = append(cls, "invalid_utf8")
		if strings.ToValidUTF8(a, "?") == strings.ToValidUTF8(b, "?") {
			cls = append(cls, "invalid_utf8_only_difference")
		}
		nt = true
	}
	if c.Color && a != "" && b != "" && isSingleLineText(a) && isSingleLineText(b) {
		cls = append(cls, "inline_path")
		nt = true
	}
	if vhHunksOf(al, bl) >= 2 {
		cls = append(cls, "multi_hunk")
		nt = true
	}
	return cls, nt
}

func isSingleLineText(s string) bool {
	i := strings.Index(s, "\n")
	return i == -1 || i == len(s)-1
}

// hunksOf: number of maximal changed runs separated by > 6 common lines (harness-side estimate
// through a plain LCS-free scan: common prefix/suffix stripped, then gaps counted).
func vhHunksOf(a, b []string) int {
	// cheap estimate: positions where a and b (aligned from the front) differ, grouped
	n := len(a)
	if len(b) < n {
		n = len(b)
	}
	h, gap, in := 0, 7, false
	for i := 0; i < n; i++ {
		if a[i] != b[i] {
			if !in && gap > 6 {
				h++
			}
			in, gap = true, 0
		} else {
			in = false
			gap++
		}
	}
	if len(a) != len(b) && h == 0 {
		h = 1
	}
	return h
}

var c13prop = prop[diffCase]{
	property: "C13",
	check:    checkDiffCase,
	classify: classifyDiffCase,
}

// exhaustive over a 3-letter alphabet
func TestC13_Exhaustive(t *testing.T) {
	maxLen := 4
	if tierThorough() {
		maxLen = 5
	}
	var seqs []string
	var build func(prefix []string, k int)
	build = func(prefix []string, k int) {
		if len(prefix) > 0 {
			seqs = append(seqs, strings.Join(prefix, "\n"))
		}
		if k == 0 {
			return
		}
		for _, l := range []string{"a", "b", "c"} {
			build(append(append([]string{}, prefix...), l), k-1)
		}
	}
	seqs = append(seqs, "")
	build(nil, maxLen)
	nshards, _ := strconv.Atoi(vhGetenv("VERIF_NSHARDS", "1"))
	shard, _ := strconv.Atoi(vhGetenv("VERIF_SHARD", "0"))
	p := c13prop
	p.enumerate(t, func(yield func(diffCase) bool) {
		k := 0
		for _, a := range seqs {
			for _, b := range seqs {
				k++
				if k%nshards != shard {
					continue
				}
				for _, color := range []bool{false, true} {
					if !yield(diffCase{A: BS(a), B: BS(b), Color: color}) {
						return
					}
				}
			}
		}
	})
}

// mutateText applies one edit to a text (lines level or byte level).
func mutateText(t *rapid.T, s string, o textOpts) string {
	ls := strings.Split(s, "\n")
	switch rapid.IntRange(0, 15).Draw(t, "mut") {
	case 12: // terminal control sequences only: a colour changes, appears, or every sequence is lost (NO_COLOR regression)
		if strings.Contains(s, "\x1b[31m") {
			if rapid.Bool().Draw(t, "recolour") {
				return strings.ReplaceAll(s, "\x1b[31m", "\x1b[32m")
			}
			return strings.NewReplacer("\x1b[31m", "", "\x1b[0m", "", "\x1b[1m", "").Replace(s)
		}
		i := rapid.IntRange(0, len(ls)-1).Draw(t, "li")
		out := append([]string{}, ls...)
		out[i] = rapid.SampledFrom([]string{"\x1b[31m", "\x1b[1m", "\x1b[0m"}).Draw(t, "sgr") + out[i] + "\x1b[0m"
		return strings.Join(out, "\n")
	case 13: // characters nobody sees: blank <-> no-break space, a zero width space / joiner / direction mark somewhere
		if i := strings.Index(s, " "); i >= 0 && rapid.Bool().Draw(t, "nbsp") {
			return s[:i] + rapid.SampledFrom([]string{"\u00a0", "\u202f", "\u2009"}).Draw(t, "space") + s[i+1:]
		}
		if i := strings.Index(s, "\u00a0"); i >= 0 {
			return s[:i] + " " + s[i+2:]
		}
		i := rapid.IntRange(0, len(s)).Draw(t, "pos")
		for i > 0 && i < len(s) && s[i]&0xC0 == 0x80 {
			i--
		}
		return s[:i] + rapid.SampledFrom([]string{"\u200b", "\u200d", "\u200f", "\u00ad", "\u2060"}).Draw(t, "invisible") + s[i:]
	case 14: // the whole text reappears behind a label glued to its first line (error wrappers, worker prefixes)
		return rapid.SampledFrom([]string{"1 error occurred:\n\t* ", "worker 3: ", "# Report\n\n> "}).Draw(t, "label") + s
	case 15: // everything from a line that merely STARTS with the terminator on is gone (a table that lost its body)
		for i := 1; i < len(ls); i++ {
			if strings.HasPrefix(ls[i], "---") {
				return strings.Join(ls[:i], "\n")
			}
		}
		return s + "\n" + rapid.SampledFrom([]string{"----------", "--- FAIL: TestA", "|---|---|", "--- a/file.go"}).Draw(t, "dashed")
	case 0: // flip one byte
		if len(s) == 0 {
			return "x"
		}
		i := rapid.IntRange(0, len(s)-1).Draw(t, "pos")
		b := []byte(s)
		b[i] ^= byte(rapid.IntRange(1, 255).Draw(t, "xor"))
		if b[i] == '\n' || b[i] == '\r' {
			b[i] = 'q'
		}
		return string(b)
	case 1: // insert a byte
		i := rapid.IntRange(0, len(s)).Draw(t, "pos")
		c := rapid.SampledFrom([]string{" ", "\t", "a", "\xff", "-", "\x00"}).Draw(t, "ins")
		return s[:i] + c + s[i:]
	case 2: // delete a byte
		if len(s) == 0 {
			return " "
		}
		i := rapid.IntRange(0, len(s)-1).Draw(t, "pos")
		return s[:i] + s[i+1:]
	case 3:
		return s + "\n"
	case 4:
		return "\n" + s
	case 5:
		return strings.TrimSuffix(s, "\n")
	case 6: // duplicate a line
		i := rapid.IntRange(0, len(ls)-1).Draw(t, "li")
		out := append(append(append([]string{}, ls[:i+1]...), ls[i]), ls[i+1:]...)
		return strings.Join(out, "\n")
	case 7: // delete a line
		if len(ls) < 2 {
			return s + " "
		}
		i := rapid.IntRange(0, len(ls)-1).Draw(t, "li")
		out := append(append([]string{}, ls[:i]...), ls[i+1:]...)
		return strings.Join(out, "\n")
	case 8: // replace a line
		i := rapid.IntRange(0, len(ls)-1).Draw(t, "li")
		out := append([]string{}, ls...)
		out[i] = genLine(t, o)
		return strings.Join(out, "\n")
	case 9: // whitespace only
		i := rapid.IntRange(0, len(ls)-1).Draw(t, "li")
		out := append([]string{}, ls...)
		out[i] = out[i] + rapid.SampledFrom([]string{" ", "\t", "  "}).Draw(t, "ws")
		return strings.Join(out, "\n")
	case 10: // invalid utf-8 swap, or invalid byte <-> a real U+FFFD
		if i := strings.IndexAny(s, "\xff\xfe\x80"); i >= 0 && (s[i] == 0xff || s[i] == 0xfe || s[i] == 0x80) {
			if rapid.Bool().Draw(t, "tofffd") {
				return s[:i] + "\uFFFD" + s[i+1:]
			}
			b := []byte(s)
			b[i] = map[byte]byte{0xff: 0xfe, 0xfe: 0xff, 0x80: 0x81}[b[i]]
			return string(b)
		}
		if i := strings.Index(s, "\uFFFD"); i >= 0 {
			return s[:i] + "\xe9" + s[i+3:]
		}
		return s + rapid.SampledFrom([]string{"\xfe", "\uFFFD"}).Draw(t, "badsfx")
	default: // move a block
		if len(ls) < 3 {
			return s + "\nz"
		}
		i := rapid.IntRange(1, len(ls)-1).Draw(t, "cut")
		out := append(append([]string{}, ls[i:]...), ls[:i]...)
		return strings.Join(out, "\n")
	}
}

func genDiffCase(t *rapid.T) diffCase {
	o := textOpts{escapeToken: true, headerLike: true, maxLines: rapid.SampledFrom([]int{1, 3, 6, 15, 40}).Draw(t, "maxlines")}
	a := genText(t, o)
	var b string
	switch rapid.IntRange(0, 9).Draw(t, "pairkind") {
	case 0:
		b = genText(t, o)
	case 2:
		a, b = genUTF8Pair(t)
	case 3:
		// the same lines with CRLF line ends on one side and LF on the other (a stored HTTP dump / CSV against a writer
		// that lost its carriage returns), optionally with one more edit
		b = strings.ReplaceAll(a, "\r", "")
		a = strings.ReplaceAll(b, "\n", "\r\n")
		if rapid.Bool().Draw(t, "crlfplus") {
			b = mutateText(t, b, o)
		}
	case 1:
		b = a
	default:
		b = a
		for i := rapid.IntRange(1, 3).Draw(t, "nmut"); i > 0; i-- {
			b = mutateText(t, b, o)
		}
	}
	if rapid.Bool().Draw(t, "swap") {
		a, b = b, a
	}
	c := diffCase{A: BS(a), B: BS(b), Color: rapid.Bool().Draw(t, "color")}
	if rapid.IntRange(0, 39).Draw(t, "afterbig") == 0 {
		c.AfterBigKiB = rapid.SampledFrom([]int{64, 520, 600, 1100}).Draw(t, "bigkib")
	}
	return c
}

func TestC13_Random(t *testing.T) {
	p := c13prop
	p.gen = genDiffCase
	p.run(t)
}

// large texts: > 10 lines (range headers) and >= 200 lines with a popular line (autoJunk).
func genLargeDiffCase(t *rapid.T) diffCase {
	n := rapid.SampledFrom([]int{11, 12, 30, 200, 201, 260}).Draw(t, "n")
	popular := rapid.SampledFrom([]string{"", "}", "  x", "same"}).Draw(t, "popular")
	ls := make([]string, n)
	for i := range ls {
		switch rapid.IntRange(0, 3).Draw(t, "lk") {
		case 0:
			ls[i] = popular
		case 1:
			ls[i] = fmt.Sprintf("line %d", i)
		case 2:
			ls[i] = rapid.SampledFrom([]string{"a", "b", "c", "d", "e"}).Draw(t, "small")
		default:
			ls[i] = fmt.Sprintf("v%d", rapid.IntRange(0, 20).Draw(t, "v"))
		}
	}
	a := strings.Join(ls, "\n")
	o := textOpts{maxLines: 3}
	b := a
	for i := rapid.IntRange(1, 5).Draw(t, "nmut"); i > 0; i-- {
		b = mutateText(t, b, o)
	}
	if rapid.Bool().Draw(t, "swap") {
		a, b = b, a
	}
	return diffCase{A: BS(a), B: BS(b), Color: rapid.Bool().Draw(t, "color")}
}

func TestC13_Large(t *testing.T) {
	p := c13prop
	p.gen = genLargeDiffCase
	p.weight = 0.1
	p.run(t)
}
