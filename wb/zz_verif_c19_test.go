//go:build verif

// C19 A standalone snapshot file is the formatted value and nothing else.
package snaps

import (
	"github.com/tidwall/pretty"
	"encoding/json"
	"fmt"
	"os"
	"path/filepath"
	"strings"
	"testing"

	"pgregory.net/rapid"
)

type c19Call struct {
	Call Call  `json:"call"`          // ssnap | sjson | snap (interleaved multi-entry call)
	New  *Call `json:"new,omitempty"` // a different value for the same slot (phase 3)
	// Rejected: a MatchStandaloneJSON call that is rejected in every process (input is not JSON, or a matcher addresses a
	// path that does not exist): it is the k-th standalone call all the same, so the calls after it keep their files
	Rejected bool `json:"rejected,omitempty"`
}

type c19Case struct {
	Cfg   CfgSpec   `json:"cfg"`
	Test  string    `json:"test"`
	Calls []c19Call `json:"calls"`
	Count int       `json:"count"` // executions of the test per process
	Mode2 Mode      `json:"mode2"` // read-only replay mode
	Upd2  *bool     `json:"update_option2"`
	// Sibling (no fixed Filename): another test with a related name (an extension of the name, or a long name that differs
	// from Test only in its last bytes) stores ONE standalone snapshot in the same directory before Test runs: its file is
	// its own, in every process
	Sibling string `json:"sibling_test,omitempty"`
}

const siblingValue = "the sibling's value"


var hostileValues = []string{"\ufeff", "\ufeffwith bom", "", "\r", "a\r\nb\r\n", "line\r", "---", "a\n---\nb", "/-/-/-/", "\x00", "\xff\xfe", "[TestA - 1]\nx\n---\n", "\n", "\n\n", "trailing\n", " ", "tab\t", "é", "a\rb", "---\r\n---"}

func genStandaloneValue(t *rapid.T) Val {
	switch rapid.IntRange(0, 9).Draw(t, "svk") {
	case 0, 1, 2, 3:
		return strVal(rapid.SampledFrom(hostileValues).Draw(t, "hostile"))
	case 4, 5:
		ls := rapid.SliceOfN(rapid.SampledFrom(append(append([]string{}, fixedLines...), "cr\r", "\r")), 0, 5).Draw(t, "lines")
		return strVal(strings.Join(ls, rapid.SampledFrom([]string{"\n", "\r\n"}).Draw(t, "eol")))
	case 6:
		return strVal(string(rapid.SliceOfN(rapid.Byte(), 0, 24).Draw(t, "bytes")))
	default:
		return genStructuredVal(t)
	}
}

func genC19(t *rapid.T) c19Case {
	c := c19Case{Cfg: CfgSpec{Dir: "snaps"}, Test: genTestName(t), Count: rapid.SampledFrom([]int{1, 1, 2, 3}).Draw(t, "count")}
	c.Cfg.Filename = rapid.SampledFrom([]string{"", "", "custom", "with%percent", "ünï"}).Draw(t, "filename")
	c.Cfg.Ext = rapid.SampledFrom([]string{"", "", ".html", ".json", ".%d"}).Draw(t, "ext")
	c.Mode2, c.Upd2 = genReadOnlyMode(t)
	c.Cfg.JSON = rapid.SampledFrom(jsonCfgPool).Draw(t, "jsonoptions")
	if c.Cfg.Filename == "" && c.Cfg.Ext == "" && c.Upd2 == nil && c.Cfg.JSON == nil && rapid.Bool().Draw(t, "pkglevel") {
		c.Cfg.PkgLevel = true // package-level MatchStandaloneSnapshot / MatchStandaloneJSON / MatchSnapshot
	}
	n := rapid.IntRange(1, 6).Draw(t, "ncalls")
	if rapid.IntRange(0, 5).Draw(t, "many") == 0 {
		n = rapid.IntRange(10, 12).Draw(t, "ncalls10")
	}
	for i := 0; i < n; i++ {
		var cc c19Call
		switch rapid.IntRange(0, 10).Draw(t, "kind") {
		case 10:
			cc.Rejected = true
			if rapid.IntRange(0, 2).Draw(t, "invalidwithmatcher") == 0 {
				// not JSON, although lenient readers find the member a matcher addresses: rejected as invalid all the same
				cc.Call = Call{API: "sjson", Doc: BS(rapid.SampledFrom([]string{`{"id": 1, "latency": NaN}`, `{"id":1,"rows":[1,2`, `{"id": 7, "at": 2026-01-02}`, `{"id":1}}`, `{"id":1} trailing`}).Draw(t, "lenient")),
					Form: rapid.SampledFrom([]string{"string", "bytes"}).Draw(t, "form"), Matchers: []MatcherSpec{{Kind: rapid.SampledFrom([]string{"any", "custom"}).Draw(t, "mkind"), Paths: []string{"id"}, Return: json.RawMessage(`"x"`)}}}
			} else if rapid.Bool().Draw(t, "rejectedbymatcher") {
				cc.Call = Call{API: "sjson", Doc: `{"a":1}`, Form: "string", Matchers: []MatcherSpec{{Kind: "any", Paths: []string{"no.such.path"}}}}
			} else {
				cc.Call = Call{API: "sjson", Doc: BS(rapid.SampledFrom([]string{"{", "", "{\"a\":1}}", "not json"}).Draw(t, "invalidjson")), Form: rapid.SampledFrom([]string{"string", "bytes"}).Draw(t, "form")}
			}
		case 0:
			cc.Call = Call{API: "snap", Vals: []Val{strVal(rapid.SampledFrom([]string{"m1", "m2", "multi\nentry"}).Draw(t, "mv"))}}
		case 1, 2, 3:
			n := genJRoot(t, 3)
			form := rapid.SampledFrom([]string{"string", "bytes", "value"}).Draw(t, "form")
			if n.K == "str" {
				form = "string"
			}
			cc.Call = Call{API: "sjson", Doc: BS(n.Spaced(t)), Form: form}
			if rapid.Bool().Draw(t, "hasnew") {
				m := mutateJNode(t, n)
				if m.Canon() != n.Canon() {
					f2 := form
					if m.K == "str" {
						f2 = "string"
					}
					cc.New = &Call{API: "sjson", Doc: BS(m.Compact()), Form: f2}
				}
			}
		default:
			v := genStandaloneValue(t)
			if rapid.IntRange(0, 11).Draw(t, "bigvalue") == 0 {
				// a big report (64 KiB and more, sizes on and off block boundaries) and, as the changed value, the same text
				// with ONE byte altered at the start, in the middle, near or at the end: same length, same everything else
				size := rapid.SampledFrom([]int{65536, 65537, 70001, 98304, 100003, 131072}).Draw(t, "bigsize")
				var sb strings.Builder
				for i := 0; sb.Len() < size; i++ {
					fmt.Fprintf(&sb, "row %06d,%s\n", i, strings.Repeat("x", i%37))
				}
				big := sb.String()[:size]
				pos := rapid.SampledFrom([]int{0, size / 2, size - 1, size - 2, size - 100, 32768, 65535}).Draw(t, "bigpos")
				alt := []byte(big)
				alt[pos] ^= 0x01
				cc.Call = Call{API: "ssnap", Vals: []Val{strVal(big)}}
				cc.New = &Call{API: "ssnap", Vals: []Val{strVal(string(alt))}}
				c.Calls = append(c.Calls, cc)
				continue
			}
			cc.Call = Call{API: "ssnap", Vals: []Val{v}}
			if rapid.Bool().Draw(t, "hasnew") {
				w := genStandaloneValue(t)
				if rapid.Bool().Draw(t, "shorter") && len(v.Text()) > 1 {
					w = strVal(v.Text()[:len(v.Text())/2])
				}
				if v.Kind == "str" && strings.Contains(string(v.S), "\r") && rapid.Bool().Draw(t, "crlf2lf") {
					// the same text with CRLF line ends turned into LF (or CRs dropped): a different byte sequence
					w = strVal(strings.ReplaceAll(string(v.S), "\r\n", "\n"))
					if w.Text() == v.Text() {
						w = strVal(strings.ReplaceAll(string(v.S), "\r", ""))
					}
				}
				if v.Kind == "str" && rapid.IntRange(0, 5).Draw(t, "finalnewline") == 0 {
					// the two values differ in ONE final newline only (an end-of-file fixer, a value that lost its last newline)
					if rapid.Bool().Draw(t, "recordedhasit") {
						v, w = strVal(string(v.S)+"\n"), strVal(string(v.S))
						cc.Call = Call{API: "ssnap", Vals: []Val{v}}
					} else {
						w = strVal(string(v.S) + "\n")
					}
				}
				if w.Text() != v.Text() {
					cc.New = &Call{API: "ssnap", Vals: []Val{w}}
				}
			}
		}
		c.Calls = append(c.Calls, cc)
	}
	if c.Cfg.Filename == "" {
		switch rapid.IntRange(0, 9).Draw(t, "sibling") {
		case 0, 1:
			c.Sibling = c.Test + rapid.SampledFrom([]string{"B", "0", "/s", "_", "#01"}).Draw(t, "siblingsuffix")
		case 2:
			if c.Cfg.Ext == "" {
				// two names of 246 bytes that share their first 236: with `_<k>.snap` the file names stay below 255 bytes
				stem := "TestLong/" + strings.Repeat("segment_", 29)[:227]
				c.Test, c.Sibling = stem+"_200_ok_xy", stem+"_404_ko_xy"
				var keep []c19Call
				for _, cc := range c.Calls {
					if cc.Call.API != "sjson" && len(keep) < 9 {
						keep = append(keep, cc)
					}
				}
				if len(keep) == 0 {
					keep = []c19Call{{Call: Call{API: "ssnap", Vals: []Val{strVal("long name")}}}}
				}
				c.Calls = keep
			}
		}
	}
	return c
}

// canonicalJSONText: the document formatted by tidwall/pretty (the dependency go-snaps formats JSON with) under the given
// options; nil = the library's defaults (sorted keys, one blank of indent, no width). Without the final newline.
func canonicalJSONText(doc []byte, o *JSONCfg) string {
	po := &pretty.Options{SortKeys: true, Indent: " "}
	if o != nil {
		po = &pretty.Options{SortKeys: o.SortKeys, Indent: o.Indent, Width: o.Width}
	}
	return strings.TrimSuffix(string(pretty.PrettyOptions(doc, po)), "\n")
}

func checkStandaloneFileOpt(call Call, data string, o *JSONCfg) error {
	if err := checkStandaloneFile(call, data); err != nil {
		return err
	}
	if call.API != "sjson" || len(call.Matchers) > 0 {
		return nil
	}
	// "the canonical pretty JSON": for a Go value, its standard encoding (encoding/json) formatted; for text, the text formatted
	src := []byte(call.Doc)
	if call.Form == "value" {
		b, err := json.Marshal(jsonValueOf(string(call.Doc)))
		if err != nil {
			return nil
		}
		src = b
	}
	if want := canonicalJSONText(src, o); data != want {
		return fmt.Errorf("file holds %q, the canonical pretty JSON of the input (form %s) is %q", vhClip(data), call.Form, vhClip(want))
	}
	return nil
}

func checkStandaloneFile(call Call, data string) error {
	switch call.API {
	case "ssnap":
		if want := call.snapText(); data != want {
			return fmt.Errorf("file holds %q, want exactly the formatted value %q", vhClip(data), vhClip(want))
		}
	case "sjson":
		if !json.Valid([]byte(data)) {
			return fmt.Errorf("file is not valid JSON: %q", vhClip(data))
		}
		return checkStandaloneJSON(data, string(call.Doc))
	}
	return nil
}

func checkC19(c c19Case) error {
	root := scratchDir()
	defer os.RemoveAll(root)

	// expected files
	sc := newSlotCounter()
	type slot struct{ file, id string }
	slots := make([]slot, len(c.Calls))
	expectFiles := map[string]bool{}
	for i, cc := range c.Calls {
		f, id := sc.slot(c.Cfg, c.Test, cc.Call)
		slots[i] = slot{f, id}
		if !cc.Rejected {
			expectFiles[f] = true
		}
	}
	wantOf := func(cc c19Call, w string) string {
		if cc.Rejected {
			return oFailed
		}
		return w
	}

	// process 1: record
	newProcess(Mode{})
	cfg := c.Cfg.build(root)
	siblingFile := ""
	if c.Sibling != "" && c.Cfg.Filename == "" {
		siblingFile = c.Cfg.standalonePath(c.Sibling, 1, false)
		expectFiles[siblingFile] = true
		fs := newFakeT(c.Sibling)
		r := Call{API: "ssnap", Vals: []Val{strVal(siblingValue)}}.invoke(cfg, fs)
		fs.finish()
		if out, err := outcomeOf(r); err != nil || out != oAdded {
			return fmt.Errorf("recording the sibling test %q: outcome %q err %v errors=%q", vhClip(c.Sibling), out, err, vhClipAll(r.Errors))
		}
	}
	ft := newFakeT(c.Test)
	for i, cc := range c.Calls {
		r := cc.Call.invoke(cfg, ft)
		if out, err := outcomeOf(r); err != nil || out != wantOf(cc, oAdded) {
			return fmt.Errorf("recording call %d (%s): outcome %q err %v errors=%q", i+1, cc.Call.API, out, err, vhClipAll(r.Errors))
		}
	}
	ft.finish()
	st := snapDir(root)
	for p, f := range st {
		if !f.IsDir && !expectFiles[p] {
			return fmt.Errorf("unexpected file %q appeared (expected exactly %v)", p, vhKeysOf(expectFiles))
		}
	}
	for i, cc := range c.Calls {
		if slots[i].id != "" || cc.Rejected {
			continue
		}
		f, ok := st[slots[i].file]
		if !ok {
			return fmt.Errorf("standalone call %d (%s) did not create %q; directory has %v", i+1, cc.Call.API, slots[i].file, vhKeysOfState(st))
		}
		if err := checkStandaloneFileOpt(cc.Call, f.Data, c.Cfg.JSON); err != nil {
			return fmt.Errorf("standalone call %d, file %q: %v", i+1, slots[i].file, err)
		}
	}

	// process 2: replay count times, read-only: passes, no write
	newProcess(c.Mode2)
	spec := c.Cfg
	spec.Update = c.Upd2
	cfg = spec.build(root)
	ageDir(root)
	before := snapDir(root)
	for e := 0; e < c.Count; e++ {
		ft := newFakeT(c.Test)
		for i, cc := range c.Calls {
			r := cc.Call.invoke(cfg, ft)
			if out, err := outcomeOf(r); err != nil || out != wantOf(cc, oPassed) {
				return fmt.Errorf("replay execution %d call %d (%s, file %q): outcome %q err %v errors=%q", e+1, i+1, cc.Call.API, slots[i].file, out, err, vhClipAll(r.Errors))
			}
		}
		ft.finish()
	}
	if d := diffDirs(before, snapDir(root), true); d != "" {
		return fmt.Errorf("replay wrote: %s", d)
	}

	// process 3: different values, updating not enabled: one error each, nothing touched
	newProcess(c.Mode2)
	cfg = spec.build(root)
	ft = newFakeT(c.Test)
	for i, cc := range c.Calls {
		call := cc.Call
		if cc.New != nil {
			call = *cc.New
		}
		r := call.invoke(cfg, ft)
		out, err := outcomeOf(r)
		want := oPassed
		if cc.New != nil {
			want = oFailed
		}
		want = wantOf(cc, want)
		if err != nil || out != want {
			return fmt.Errorf("read-only process, call %d (%s, changed=%v): outcome %q err %v, want %s", i+1, call.API, cc.New != nil, out, err, want)
		}
	}
	ft.finish()
	if d := diffDirs(before, snapDir(root), true); d != "" {
		return fmt.Errorf("failing standalone calls wrote: %s", d)
	}

	// process 4: update enabled: changed files are replaced wholesale, others untouched
	newProcess(Mode{Update: "true"})
	cfg = c.Cfg.build(root)
	for e := 0; e < c.Count; e++ {
		ft = newFakeT(c.Test)
		for i, cc := range c.Calls {
			call := cc.Call
			if cc.New != nil {
				call = *cc.New
			}
			r := call.invoke(cfg, ft)
			out, err := outcomeOf(r)
			want := oPassed
			if cc.New != nil && e == 0 {
				want = oUpdated
			}
			want = wantOf(cc, want)
			if err != nil || out != want {
				return fmt.Errorf("update process, execution %d call %d (%s): outcome %q err %v, want %s", e+1, i+1, call.API, out, err, want)
			}
		}
		ft.finish()
	}
	after := snapDir(root)
	for p, f := range after {
		if !f.IsDir && !expectFiles[p] {
			return fmt.Errorf("update process created unexpected file %q", p)
		}
	}
	for i, cc := range c.Calls {
		if slots[i].id != "" || cc.Rejected {
			continue
		}
		call := cc.Call
		if cc.New != nil {
			call = *cc.New
		}
		if err := checkStandaloneFileOpt(call, after[slots[i].file].Data, c.Cfg.JSON); err != nil {
			return fmt.Errorf("after update, standalone file %q (call %d): %v", slots[i].file, i+1, err)
		}
		if cc.New == nil && !after[slots[i].file].Mtime.Equal(before[slots[i].file].Mtime) {
			return fmt.Errorf("update process wrote %q although its value did not change", slots[i].file)
		}
	}
	if siblingFile != "" && after[siblingFile].Data != siblingValue {
		return fmt.Errorf("the file of the sibling test %q holds %q after the runs of %q, want its own value %q", vhClip(c.Sibling), vhClip(after[siblingFile].Data), vhClip(c.Test), siblingValue)
	}
	return nil
}

func vhKeysOf(m map[string]bool) []string {
	var out []string
	for k := range m {
		out = append(out, k)
	}
	return out
}

func vhKeysOfState(m dirState) []string {
	var out []string
	for k := range m {
		out = append(out, filepath.Base(k))
	}
	return out
}

func classifyC19(c c19Case) ([]string, bool) {
	var cls []string
	nt := false
	if c.Sibling != "" && c.Cfg.Filename == "" {
		cls = append(cls, "sibling_test_in_the_same_directory")
		if len(c.Test) > 200 {
			cls = append(cls, "names_of_246_bytes_that_differ_in_their_last_bytes")
		}
		nt = true
	}
	for _, cc := range c.Calls {
		if cc.Call.API == "ssnap" {
			txt := cc.Call.snapText()
			if strings.Contains(txt, "\r") {
				cls = append(cls, "value_with_cr")
				nt = true
			}
			if txt == "" {
				cls = append(cls, "empty_value")
				nt = true
			}
			if len(txt) >= 65536 {
				cls = append(cls, "value_of_64KiB_or_more_with_a_one_byte_change")
				nt = true
			}
			for _, l := range strings.Split(txt, "\n") {
				if l == "---" || l == "/-/-/-/" {
					cls = append(cls, "terminator_like_line")
					nt = true
				}
			}
			if cc.New != nil && len(cc.New.snapText()) < len(txt) {
				cls = append(cls, "update_to_shorter")
				nt = true
			}
		}
		if cc.Call.API == "snap" {
			cls = append(cls, "interleaved_multi_entry_call")
		}
		if cc.Call.API == "sjson" {
			cls = append(cls, "standalone_json")
		}
	}
	for i, cc := range c.Calls {
		if cc.Rejected && i < len(c.Calls)-1 {
			cls = append(cls, "rejected_call_followed_by_calls")
			nt = true
		}
	}
	if c.Count >= 2 {
		cls = append(cls, "two_or_more_executions")
		nt = true
	}
	if len(c.Calls) >= 10 {
		cls = append(cls, "ten_or_more_calls")
		nt = true
	}
	if strings.Contains(c.Test+c.Cfg.Filename+c.Cfg.Ext, "%") {
		cls = append(cls, "percent_in_name")
	}
	return vhUniq(cls), nt
}

func TestC19_Standalone(t *testing.T) {
	prop[c19Case]{property: "C19", gen: genC19, check: checkC19, classify: classifyC19}.run(t)
}
