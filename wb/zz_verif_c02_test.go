//go:build verif

// C02 Every change of the formatted value is reported (no false passes).
package snaps

import (
	"fmt"
	"os"
	"path/filepath"
	"strconv"
	"strings"
	"testing"

	"github.com/gkampitakis/go-snaps/internal/colors"
	"pgregory.net/rapid"
)

type c02Case struct {
	Cfg    CfgSpec `json:"cfg"`
	Test   string  `json:"test"`
	Stored Call    `json:"stored"`
	Recv   Call    `json:"received"`
	Mode   Mode    `json:"mode"`          // mode of the second process
	UpdOpt *bool   `json:"update_option"` // nil or false; true only together with CI (on CI nothing is written whatever the option says)
	Color  bool    `json:"color"`
	// texts as the harness computed them (informational for snap/ssnap/yaml; empty for json)
	// Between: presentation change of the stored multi-entry file between the two processes (see c01Case.Between)
	Between string `json:"file_represented_between,omitempty"`
	A BS `json:"formatted_stored,omitempty"`
	B BS `json:"formatted_received,omitempty"`
}

// k1Pair: the known finding K1 – stored and received differ only by `---` lines vs `/-/-/-/` lines.
func k1Pair(api, a, b string) bool {
	return (api == "snap" || api == "yaml") && a != b && refUnescape(a) == refUnescape(b)
}

func genReadOnlyMode(t *rapid.T) (Mode, *bool) {
	switch rapid.IntRange(0, 5).Draw(t, "mode") {
	case 0:
		return Mode{}, nil
	case 1:
		return Mode{}, vhBoolp(false)
	case 2:
		// on CI nothing is ever written - whatever UPDATE_SNAPS and the Update option say
		var opt *bool
		if rapid.IntRange(0, 2).Draw(t, "cioption") == 0 {
			opt = vhBoolp(rapid.Bool().Draw(t, "cioptionvalue"))
		}
		return Mode{CI: true, Update: rapid.SampledFrom([]string{"", "true", "clean"}).Draw(t, "ciupd")}, opt
	case 3:
		return Mode{Update: "clean"}, nil
	case 4:
		return Mode{Update: rapid.SampledFrom([]string{"1", "TRUE", "false", "yes", "True", "t", "true ", "0", "FALSE", "f"}).Draw(t, "other")}, nil
	default:
		return Mode{Update: "true"}, vhBoolp(false)
	}
}

// mutateJNode changes the JSON *value* of the tree.
func mutateJNode(t *rapid.T, n JNode) JNode {
	switch n.K {
	case "obj", "arr":
		if len(n.Kids) > 0 && rapid.IntRange(0, 3).Draw(t, "descend") > 0 {
			i := rapid.IntRange(0, len(n.Kids)-1).Draw(t, "kid")
			out := n
			out.Kids = append([]JNode{}, n.Kids...)
			out.Kids[i] = mutateJNode(t, n.Kids[i])
			return out
		}
		switch rapid.IntRange(0, 2).Draw(t, "cm") {
		case 0: // add a member/element
			out := n
			out.Kids = append(append([]JNode{}, n.Kids...), JNode{K: "num", Num: "42"})
			if n.K == "obj" {
				key := "added"
				for i := 0; vhContains(n.Keys, key); i++ {
					key = fmt.Sprintf("added%d", i)
				}
				out.Keys = append(append([]string{}, n.Keys...), key)
			}
			return out
		case 1: // drop one
			if len(n.Kids) == 0 {
				return JNode{K: "null"}
			}
			i := rapid.IntRange(0, len(n.Kids)-1).Draw(t, "drop")
			out := n
			out.Kids = append(append([]JNode{}, n.Kids[:i]...), n.Kids[i+1:]...)
			if n.K == "obj" {
				out.Keys = append(append([]string{}, n.Keys[:i]...), n.Keys[i+1:]...)
			}
			return out
		default: // swap two array elements (order matters in arrays)
			if n.K == "arr" && len(n.Kids) > 1 && n.Kids[0].Canon() != n.Kids[1].Canon() {
				out := n
				out.Kids = append([]JNode{}, n.Kids...)
				out.Kids[0], out.Kids[1] = out.Kids[1], out.Kids[0]
				return out
			}
			return JNode{K: "str", S: "replaced"}
		}
	case "str":
		return JNode{K: "str", S: n.S + rapid.SampledFrom([]string{" ", "x", "\n", "é"}).Draw(t, "sfx")}
	case "num":
		if nb, ok := numNeighbour(n.Num); ok && rapid.Bool().Draw(t, "neighbour") {
			return JNode{K: "num", Num: nb}
		}
		alt := rapid.SampledFrom(jsonNums).Draw(t, "altnum")
		if alt == n.Num {
			alt = "77"
		}
		return JNode{K: "num", Num: alt}
	case "bool":
		return JNode{K: "bool", B: !n.B}
	default:
		return JNode{K: "bool", B: false}
	}
}

func vhContains(ss []string, s string) bool {
	for _, x := range ss {
		if x == s {
			return true
		}
	}
	return false
}

func genC02Pair(t *rapid.T, col *collector, k1 bool) (c02Case, bool) {
	c := c02Case{Cfg: CfgSpec{Dir: "snaps", Filename: "f"}, Test: genTestName(t), Color: rapid.Bool().Draw(t, "color")}
	if rapid.IntRange(0, 3).Draw(t, "ext") == 0 {
		c.Cfg.Ext = ".txt"
	} else if rapid.IntRange(0, 3).Draw(t, "pkglevel") == 0 {
		c.Cfg.Filename, c.Cfg.PkgLevel = "", true // package-level functions (ignored when an Update option is set)
	}
	c.Mode, c.UpdOpt = genReadOnlyMode(t)
	c.Between = rapid.SampledFrom([]string{"", "", "", "", "no_final_newline", "crlf"}).Draw(t, "between")
	api := rapid.SampledFrom([]string{"snap", "snap", "snap", "ssnap", "json", "sjson", "yaml"}).Draw(t, "api")
	if k1 {
		api = rapid.SampledFrom([]string{"snap", "yaml"}).Draw(t, "api")
	}
	o := textOpts{escapeToken: true, headerLike: true, maxLines: 6}
	switch api {
	case "snap", "ssnap":
		var va, vb string
		if k1 {
			ls := strings.Split(genText(t, o), "\n")
			ls = append(ls, rapid.SampledFrom([]string{"---", "/-/-/-/"}).Draw(t, "tok"))
			ls = rapid.Permutation(ls).Draw(t, "perm")
			va = strings.Join(ls, "\n")
			lb := append([]string{}, ls...)
			for i, l := range lb {
				if l == "---" && rapid.Bool().Draw(t, "flip") {
					lb[i] = "/-/-/-/"
				} else if l == "/-/-/-/" && rapid.Bool().Draw(t, "flip") {
					lb[i] = "---"
				}
			}
			vb = strings.Join(lb, "\n")
		} else if api == "ssnap" && rapid.IntRange(0, 9).Draw(t, "tokenpair") == 0 {
			// standalone files hold the value byte for byte: `---` and `/-/-/-/` lines are different text there
			ls := strings.Split(genText(t, o), "\n")
			ls = append(ls, rapid.SampledFrom([]string{"---", "/-/-/-/"}).Draw(t, "tok"))
			ls = rapid.Permutation(ls).Draw(t, "perm")
			va = strings.Join(ls, "\n")
			lb := append([]string{}, ls...)
			for i, l := range lb {
				switch l {
				case "---":
					lb[i] = "/-/-/-/"
				case "/-/-/-/":
					lb[i] = "---"
				}
			}
			vb = strings.Join(lb, "\n")
		} else if rapid.IntRange(0, 9).Draw(t, "bompair") == 0 {
			// the same text with and without a byte order mark / zero-width character at the very start or end
			vb = genText(t, o)
			mark := rapid.SampledFrom([]string{"\ufeff", "\u200b", "\ufeff\ufeff", "\x00"}).Draw(t, "mark")
			if rapid.Bool().Draw(t, "markfront") {
				va = mark + vb
			} else {
				va = vb + mark
			}
		} else if rapid.IntRange(0, 6).Draw(t, "utf8pair") == 0 {
			va, vb = genUTF8Pair(t)
		} else if rapid.IntRange(0, 24).Draw(t, "bigpair") == 0 {
			// a big text (64 KiB and more, on and off block boundaries) and the same text with ONE byte altered
			size := rapid.SampledFrom([]int{65536, 65537, 70001, 98304, 100003, 131072}).Draw(t, "bigsize")
			var sb strings.Builder
			for i := 0; sb.Len() < size; i++ {
				fmt.Fprintf(&sb, "row %06d,%s\n", i, strings.Repeat("x", i%37))
			}
			va = sb.String()[:size]
			pos := rapid.SampledFrom([]int{0, size / 2, size - 1, size - 2, size - 100, 32768, 65535}).Draw(t, "bigpos")
			alt := []byte(va)
			alt[pos] ^= 0x01
			vb = string(alt)
		} else {
			va = genText(t, o)
			if rapid.IntRange(0, 9).Draw(t, "independent") == 0 {
				vb = genText(t, o)
			} else {
				vb = va
				for i := rapid.IntRange(1, 2).Draw(t, "nmut"); i > 0; i-- {
					vb = mutateText(t, vb, o)
				}
			}
		}
		if api == "ssnap" && rapid.IntRange(0, 3).Draw(t, "cr") == 0 {
			va += "\r"
		}
		if rapid.Bool().Draw(t, "swap") {
			va, vb = vb, va
		}
		if !k1 && rapid.IntRange(0, 7).Draw(t, "crlf") == 0 {
			// the received text is the stored one with CRLF line ends (or one CR before a newline / at the end):
			// a different formatted value. (Storing such a value is the documented limitation; receiving it is not.)
			switch rapid.IntRange(0, 2).Draw(t, "crlfkind") {
			case 0:
				vb = strings.ReplaceAll(va, "\n", "\r\n")
			case 1:
				vb = va + "\r"
			default:
				vb = va + "\r\n"
			}
			if api == "ssnap" && rapid.Bool().Draw(t, "crlfswap") {
				va, vb = vb, va
			}
		}
		c.Stored = Call{API: api, Vals: []Val{strVal(va)}}
		c.Recv = Call{API: api, Vals: []Val{strVal(vb)}}
		a, b := c.Stored.snapText(), c.Recv.snapText()
		c.A, c.B = BS(a), BS(b)
		if a == b {
			col.exclude("pair formats identically")
			return c, false
		}
		if api == "snap" && hasTrailingCR(a) {
			col.exclude("cr_at_end_of_line(documented limitation)")
			return c, false
		}
	case "json", "sjson":
		n := genJRoot(t, 3)
		m := mutateJNode(t, n)
		if n.Canon() == m.Canon() {
			col.exclude("pair formats identically")
			return c, false
		}
		form := func(x JNode) string {
			f := rapid.SampledFrom([]string{"string", "bytes", "value"}).Draw(t, "form")
			if x.K == "str" {
				return "string"
			}
			return f
		}
		c.Stored = Call{API: api, Doc: BS(n.Compact()), Form: form(n)}
		c.Recv = Call{API: api, Doc: BS(m.Compact()), Form: form(m)}
	case "yaml":
		var a, b string
		if k1 {
			a = "a: 1\n---\nb: |\n  x\n/-/-/-/\n"
			// a whole line "/-/-/-/" is not valid YAML at top level in most positions; use the block scalar form
			a = "text: |\n  one\n---\nnext: 2\n"
			b = "text: |\n  one\n/-/-/-/\nnext: 2\n"
			if !yamlValid(b) {
				// keep the conflation inside a multi-document stream only if the library accepts both
				col.exclude("k1 yaml variant not accepted by the yaml library")
				return c, false
			}
		} else {
			a = genValidYAML(t)
			b = a
			for tries := 0; tries < 5 && (b == a || !yamlValid(b)); tries++ {
				b = mutateText(t, a, textOpts{maxLines: 3})
			}
			if rapid.IntRange(0, 5).Draw(t, "independent") == 0 {
				b = genValidYAML(t)
			}
		}
		if a == b || !yamlValid(a) || !yamlValid(b) || hasTrailingCR(a) || hasTrailingCR(b) {
			col.exclude("yaml pair identical, invalid or with CR at end of line")
			return c, false
		}
		if rapid.Bool().Draw(t, "swap") {
			a, b = b, a
		}
		f := rapid.SampledFrom([]string{"string", "bytes"}).Draw(t, "form")
		c.Stored = Call{API: api, Doc: BS(a), Form: f}
		c.Recv = Call{API: api, Doc: BS(b), Form: f}
		c.A, c.B = BS(a), BS(b)
	}
	if !k1 && k1Pair(api, string(c.A), string(c.B)) {
		col.exclude("K1 escape_token_conflation (known finding, probed separately)")
		return c, false
	}
	if k1 && !k1Pair(api, string(c.A), string(c.B)) {
		return c, false
	}
	return c, true
}

func genC02(test string, k1 bool) func(t *rapid.T) c02Case {
	return func(t *rapid.T) c02Case {
		col := getCollector("C02", test)
		for i := 0; i < 30; i++ {
			if c, ok := genC02Pair(t, col, k1); ok {
				return c
			}
		}
		// deterministic fallback (keeps rapid from rejecting the whole draw)
		if k1 {
			return c02Case{Cfg: CfgSpec{Dir: "snaps", Filename: "f"}, Test: "TestA", Stored: Call{API: "snap", Vals: []Val{strVal("---")}},
				Recv: Call{API: "snap", Vals: []Val{strVal("/-/-/-/")}}, A: "---", B: "/-/-/-/"}
		}
		return c02Case{Cfg: CfgSpec{Dir: "snaps", Filename: "f"}, Test: "TestA", Stored: Call{API: "snap", Vals: []Val{strVal("a")}},
			Recv: Call{API: "snap", Vals: []Val{strVal("b")}}, A: "a", B: "b"}
	}
}

func checkC02(c c02Case) error {
	root := scratchDir()
	defer os.RemoveAll(root)
	defer func() { colors.NOCOLOR = true }()

	// process 1: record the stored value
	colors.NOCOLOR = true
	newProcess(Mode{})
	cfg := c.Cfg.build(root)
	ft := newFakeT(c.Test)
	r := c.Stored.invoke(cfg, ft)
	ft.finish()
	if out, err := outcomeOf(r); err != nil || out != oAdded {
		return fmt.Errorf("recording the stored value: outcome %q err %v errors=%q", out, err, vhClipAll(r.Errors))
	}

	// process 2: receive a different value, updating not enabled
	if !c.Stored.standalone() {
		representFile(filepath.Join(root, c.Cfg.multiPath()), c.Between)
	}
	colors.NOCOLOR = !c.Color
	newProcess(c.Mode)
	spec := c.Cfg
	spec.Update = c.UpdOpt
	cfg = spec.build(root)
	before := snapDir(root)
	ft = newFakeT(c.Test)
	r = c.Recv.invoke(cfg, ft)
	ft.finish()
	after := snapDir(root)
	out, err := outcomeOf(r)
	if err != nil {
		return fmt.Errorf("received value: %v", err)
	}
	if out != oFailed {
		return fmt.Errorf("received value differs from the stored one but the call ended as %q (errors=%q logs=%q); stored %q received %q",
			out, vhClipAll(r.Errors), vhClipAll(r.Logs), vhClip(string(c.A)), vhClip(string(c.B)))
	}
	if d := diffDirs(before, after, false); d != "" {
		return fmt.Errorf("failing call modified the snapshot directory: %s", d)
	}
	return nil
}

func classifyC02(c c02Case) ([]string, bool) {
	cls := []string{"api_" + c.Stored.API}
	if c.Color {
		cls = append(cls, "color")
	}
	switch {
	case c.Mode.CI:
		cls = append(cls, "mode_ci")
	case c.UpdOpt != nil:
		cls = append(cls, "mode_update_false")
	case c.Mode.Update == "clean":
		cls = append(cls, "mode_clean")
	case c.Mode.Update != "":
		cls = append(cls, "mode_other_string")
	default:
		cls = append(cls, "mode_default")
	}
	if c.Between != "" && !c.Stored.standalone() {
		cls = append(cls, "file_represented_"+c.Between)
	}
	a, b := string(c.A), string(c.B)
	nt := false
	if a != "" || b != "" {
		if strings.TrimRight(a, "\n") == strings.TrimRight(b, "\n") || strings.TrimLeft(a, "\n") == strings.TrimLeft(b, "\n") {
			cls = append(cls, "edge_newline_only")
			nt = true
		}
		if strings.Join(strings.Fields(a), "") == strings.Join(strings.Fields(b), "") {
			cls = append(cls, "whitespace_only")
			nt = true
		}
		if (!vhValidUTF8(a) || !vhValidUTF8(b)) && strings.ToValidUTF8(a, "�") == strings.ToValidUTF8(b, "�") {
			cls = append(cls, "invalid_utf8_only")
			nt = true
		}
		if len(a) == len(b) {
			d := 0
			for i := range a {
				if a[i] != b[i] {
					d++
				}
			}
			if d == 1 {
				cls = append(cls, "one_byte")
				nt = true
			}
		}
		if c.Color && a != "" && b != "" && isSingleLineText(a) && isSingleLineText(b) {
			cls = append(cls, "inline_path")
			nt = true
		}
		if k1Pair(c.Stored.API, a, b) {
			cls = append(cls, "k1_escape_conflation")
			nt = true
		}
	} else {
		// JSON pairs: always a changed value
		nt = true
	}
	return cls, nt
}

func knownC02(c c02Case, err error) string {
	if k1Pair(c.Stored.API, string(c.A), string(c.B)) && strings.Contains(err.Error(), "ended as \"passed\"") {
		return "K1"
	}
	return ""
}

func TestC02_Changed(t *testing.T) {
	prop[c02Case]{property: "C02", gen: genC02("TestC02_Changed", false), check: checkC02, classify: classifyC02, known: knownC02}.run(t)
}

// Probe for the known finding K1 (escape token conflation): generates only that class.
func TestC02K1_EscapeConflation(t *testing.T) {
	prop[c02Case]{property: "C02", gen: genC02("TestC02K1_EscapeConflation", true), check: checkC02, classify: classifyC02, known: knownC02, weight: 0.05}.run(t)
}

// ---- a test in which MANY calls differ (a shared fixture changed: every assertion of a table test is off): every single
// call reports its failure, in the first execution and in every further one of the process.

type c02ManyCase struct {
	N     int    `json:"calls"`
	API   string `json:"api"` // snap | json | yaml | ssnap | sjson | mixed
	Execs int    `json:"executions"`
	Color bool   `json:"color"`
}

func (c c02ManyCase) call(i int, changed bool) Call {
	api := c.API
	if api == "mixed" {
		api = []string{"snap", "json", "yaml", "ssnap", "sjson"}[i%5]
	}
	v := fmt.Sprintf("value %d", i)
	if changed {
		v = fmt.Sprintf("changed %d", i)
	}
	switch api {
	case "json", "sjson":
		return Call{API: api, Doc: BS(fmt.Sprintf(`{"v":%q}`, v)), Form: "string"}
	case "yaml":
		return Call{API: api, Doc: BS("v: " + v + "\n"), Form: "string"}
	}
	return Call{API: api, Vals: []Val{strVal(v)}}
}

func checkC02Many(c c02ManyCase) error {
	root := scratchDir()
	defer os.RemoveAll(root)
	defer func() { colors.NOCOLOR = true }()
	spec := CfgSpec{Dir: "snaps"}
	newProcess(Mode{})
	ft := newFakeT("TestManyMismatches")
	for i := 0; i < c.N; i++ {
		if r := c.call(i, false).invoke(spec.build(root), ft); len(r.Errors) != 0 {
			return fmt.Errorf("recording call %d: %q", i+1, vhClipAll(r.Errors))
		}
	}
	ft.finish()
	colors.NOCOLOR = !c.Color
	newProcess(Mode{})
	cfg := spec.build(root)
	ageDir(root)
	before := snapDir(root)
	for e := 1; e <= c.Execs; e++ {
		ft = newFakeT("TestManyMismatches")
		for i := 0; i < c.N; i++ {
			r := c.call(i, true).invoke(cfg, ft)
			if out, err := outcomeOf(r); err != nil || out != oFailed {
				return fmt.Errorf("execution %d: call %d of %d differs from its snapshot but ended as %q (%v): errors=%q logs=%q", e, i+1, c.N, out, err, vhClipAll(r.Errors), vhClipAll(r.Logs))
			}
		}
		ft.finish()
	}
	if d := diffDirs(before, snapDir(root), false); d != "" {
		return fmt.Errorf("failing calls wrote: %s", d)
	}
	return nil
}

func TestC02_ManyMismatches(t *testing.T) {
	var cases []c02ManyCase
	for i, api := range []string{"snap", "json", "yaml", "ssnap", "sjson", "mixed"} {
		for j, n := range []int{11, 12, 15, 40} {
			cases = append(cases, c02ManyCase{N: n, API: api, Execs: 1 + (i+j)%2, Color: (i+j)%3 == 0})
		}
	}
	nshards, _ := strconv.Atoi(vhGetenv("VERIF_NSHARDS", "1"))
	shard, _ := strconv.Atoi(vhGetenv("VERIF_SHARD", "0"))
	p := prop[c02ManyCase]{property: "C02", check: checkC02Many, classify: func(c c02ManyCase) ([]string, bool) {
		return []string{"api_" + c.API, fmt.Sprintf("mismatching_calls_in_one_test_%d", c.N)}, true
	}}
	p.enumerate(t, func(yield func(c02ManyCase) bool) {
		for i, c := range cases {
			if i%nshards != shard {
				continue
			}
			if !yield(c) {
				return
			}
		}
	})
}
