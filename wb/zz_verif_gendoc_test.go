//go:build verif

// Generators for JSON trees and YAML documents.
package snaps

import (
	"unicode/utf16"
	"unicode/utf8"
	"encoding/json"
	"fmt"
	"sort"
	"strings"

	"github.com/goccy/go-yaml"
	"pgregory.net/rapid"
)

// ---------------------------------------------------------------------------------------------
// JSON trees (ordered; object keys distinct)

type JNode struct {
	K    string   `json:"k"` // obj | arr | str | num | bool | null
	Keys []string `json:"keys,omitempty"`
	Kids []JNode  `json:"kids,omitempty"`
	S    string   `json:"s,omitempty"`   // str: the decoded string (valid UTF-8)
	Num  string   `json:"num,omitempty"` // num: the literal
	B    bool     `json:"b,omitempty"`
}

var jsonKeys = []string{"ok?", "2026", "a", "b", "c", "id", "name", "zz", "A", "", "a.b", "0", "1", "a b", "é", "q\"uote", "back\\slash", "x*y", "p?q", "h#", "at@", "pi|pe", "new\nline", "tab\t", "<tag>", "日本", "k10", "k9", "_", "-", "$", "$", "idToken", "a:b", "x/y", "k1"}

var jsonStrings = []string{"{}", "[]", "{\"id\":1}", "[1]", "value of type map[string]interface {}", "[]interface {}", "a\\/b", "^\\/api\\/v\\d+$", "http:\\/\\/x", "\\", "", "a", "hello world", "é", "日本語", "\U0001F600", "q\"uote", "back\\slash", "sl/ash", "<b>&amp;</b>", "line\nbreak", "tab\there", "\u0001", " ", "---", "[TestA - 1]", "null", "1", "a long long long long long long string value here", " "}

var jsonNums = []string{"0", "-0", "1", "-1", "10", "1.5", "1.50", "-2.25", "1e3", "1E+2", "1e-7", "0.0", "123456789012345678901234567890", "1.7976931348623157e308", "5e-324", "0.1", "100", "3.14159", "9007199254740993", "1085941723411234817", "-9223372036854775808"}

// numNeighbour: the integer literal next to an integer literal (last digit changed, same length): the smallest numeric
// change there is. For 64-bit ids and nanosecond time stamps the neighbour is the same float64. ok=false for non-integers.
func numNeighbour(lit string) (string, bool) {
	digits := strings.TrimPrefix(lit, "-")
	if digits == "" || strings.Trim(digits, "0123456789") != "" || (len(digits) > 1 && digits[0] == '0') {
		return "", false
	}
	b := []byte(lit)
	last := len(b) - 1
	switch {
	case b[last] == '9':
		b[last] = '8'
	case b[last] == '0' && len(digits) == 1:
		return "1", true
	default:
		b[last]++
	}
	return string(b), true
}

func genJNode(t *rapid.T, depth int) JNode {
	k := rapid.IntRange(0, 9).Draw(t, "jk")
	if depth <= 0 && k < 4 {
		k += 4
	}
	switch {
	case k < 2:
		n := rapid.IntRange(0, 4).Draw(t, "nkeys")
		node := JNode{K: "obj"}
		seen := map[string]bool{}
		for i := 0; i < n; i++ {
			key := rapid.SampledFrom(jsonKeys).Draw(t, "key")
			if seen[key] {
				continue
			}
			seen[key] = true
			node.Keys = append(node.Keys, key)
			node.Kids = append(node.Kids, genJNode(t, depth-1))
		}
		return node
	case k < 4:
		n := rapid.IntRange(0, 4).Draw(t, "nelems")
		node := JNode{K: "arr"}
		for i := 0; i < n; i++ {
			node.Kids = append(node.Kids, genJNode(t, depth-1))
		}
		return node
	case k < 6:
		return JNode{K: "str", S: rapid.SampledFrom(jsonStrings).Draw(t, "jstr")}
	case k < 8:
		return JNode{K: "num", Num: rapid.SampledFrom(jsonNums).Draw(t, "jnum")}
	case k < 9:
		return JNode{K: "bool", B: rapid.Bool().Draw(t, "jb")}
	default:
		return JNode{K: "null"}
	}
}

// genJRoot draws a document whose root is a container (the usual snapshot shape) most of the time.
func genJRoot(t *rapid.T, depth int) JNode {
	for i := 0; i < 5; i++ {
		n := genJNode(t, depth)
		if n.K == "obj" || n.K == "arr" || rapid.IntRange(0, 4).Draw(t, "scalarroot") == 0 {
			return n
		}
	}
	return JNode{K: "obj", Keys: []string{"a"}, Kids: []JNode{{K: "num", Num: "1"}}}
}

func vhJsonQuote(s string) string {
	b, _ := json.Marshal(s)
	return string(b)
}

// jsonQuoteASCII: the spelling of a JSON string that encoders with an ASCII-only default produce (Python's json.dumps,
// JSON.stringify replacers, Java libraries): every non-ASCII character as a \uXXXX escape (pairs beyond the BMP).
func jsonQuoteASCII(s string) string {
	var sb strings.Builder
	sb.WriteByte('"')
	for _, r := range s {
		switch {
		case r == utf8.RuneError:
			sb.WriteString(`\ufffd`)
		case r < 0x80:
			q := vhJsonQuote(string(r))
			sb.WriteString(q[1 : len(q)-1])
		case r <= 0xFFFF:
			fmt.Fprintf(&sb, `\u%04x`, r)
		default:
			hi, lo := utf16.EncodeRune(r)
			fmt.Fprintf(&sb, `\u%04x\u%04x`, hi, lo)
		}
	}
	sb.WriteByte('"')
	return sb.String()
}

// CompactASCII is Compact with every key and string in the ASCII-only spelling: the same document.
func (n JNode) CompactASCII() string {
	switch n.K {
	case "obj":
		parts := make([]string, len(n.Keys))
		for i, k := range n.Keys {
			parts[i] = jsonQuoteASCII(k) + ":" + n.Kids[i].CompactASCII()
		}
		return "{" + strings.Join(parts, ",") + "}"
	case "arr":
		parts := make([]string, len(n.Kids))
		for i, k := range n.Kids {
			parts[i] = k.CompactASCII()
		}
		return "[" + strings.Join(parts, ",") + "]"
	case "str":
		return jsonQuoteASCII(n.S)
	}
	return n.Compact()
}

// Compact renders the tree without insignificant whitespace, members in tree order.
func (n JNode) Compact() string {
	var sb strings.Builder
	n.write(&sb, func() string { return "" })
	return sb.String()
}

// Spaced renders with generated insignificant whitespace.
func (n JNode) Spaced(t *rapid.T) string {
	var sb strings.Builder
	n.write(&sb, func() string {
		return rapid.SampledFrom([]string{"", "", " ", "\n", "\t", "\r\n", "  \n "}).Draw(t, "ws")
	})
	return sb.String()
}

func (n JNode) write(sb *strings.Builder, ws func() string) {
	switch n.K {
	case "obj":
		sb.WriteString("{" + ws())
		for i, k := range n.Keys {
			if i > 0 {
				sb.WriteString("," + ws())
			}
			sb.WriteString(vhJsonQuote(k) + ws() + ":" + ws())
			n.Kids[i].write(sb, ws)
			sb.WriteString(ws())
		}
		sb.WriteString("}")
	case "arr":
		sb.WriteString("[" + ws())
		for i := range n.Kids {
			if i > 0 {
				sb.WriteString("," + ws())
			}
			n.Kids[i].write(sb, ws)
			sb.WriteString(ws())
		}
		sb.WriteString("]")
	case "str":
		sb.WriteString(vhJsonQuote(n.S))
	case "num":
		sb.WriteString(n.Num)
	case "bool":
		if n.B {
			sb.WriteString("true")
		} else {
			sb.WriteString("false")
		}
	default:
		sb.WriteString("null")
	}
}

// Permuted returns the tree with object members reordered.
func (n JNode) Permuted(t *rapid.T) JNode {
	out := n
	out.Kids = make([]JNode, len(n.Kids))
	for i := range n.Kids {
		out.Kids[i] = n.Kids[i].Permuted(t)
	}
	if n.K == "obj" && len(n.Keys) > 1 {
		perm := rapid.Permutation(vhIndices(len(n.Keys))).Draw(t, "perm")
		keys := make([]string, len(n.Keys))
		kids := make([]JNode, len(n.Keys))
		for i, p := range perm {
			keys[i] = n.Keys[p]
			kids[i] = out.Kids[p]
		}
		out.Keys, out.Kids = keys, kids
	}
	return out
}

func vhIndices(n int) []int {
	out := make([]int, n)
	for i := range out {
		out[i] = i
	}
	return out
}

func (n JNode) Depth() int {
	d := 0
	for _, k := range n.Kids {
		if kd := k.Depth(); kd > d {
			d = kd
		}
	}
	if n.K == "obj" || n.K == "arr" {
		return d + 1
	}
	return 0
}

// Canon: a canonical string of the JSON *value* (object members sorted, number literals verbatim).
func (n JNode) Canon() string {
	switch n.K {
	case "obj":
		idx := vhIndices(len(n.Keys))
		sort.Slice(idx, func(a, b int) bool { return n.Keys[idx[a]] < n.Keys[idx[b]] })
		parts := make([]string, len(idx))
		for i, p := range idx {
			parts[i] = vhJsonQuote(n.Keys[p]) + ":" + n.Kids[p].Canon()
		}
		return "{" + strings.Join(parts, ",") + "}"
	case "arr":
		parts := make([]string, len(n.Kids))
		for i := range n.Kids {
			parts[i] = n.Kids[i].Canon()
		}
		return "[" + strings.Join(parts, ",") + "]"
	}
	return n.Compact()
}

// parseJNode reads JSON text into an ordered tree (number literals verbatim). Independent of gjson/pretty.
func parseJNode(text string) (JNode, error) {
	dec := json.NewDecoder(strings.NewReader(text))
	dec.UseNumber()
	n, err := parseJValue(dec)
	if err != nil {
		return n, err
	}
	if _, err := dec.Token(); err == nil {
		return n, fmt.Errorf("trailing data after the JSON value")
	}
	return n, nil
}

func parseJValue(dec *json.Decoder) (JNode, error) {
	tok, err := dec.Token()
	if err != nil {
		return JNode{}, err
	}
	switch v := tok.(type) {
	case json.Delim:
		switch v {
		case '{':
			n := JNode{K: "obj"}
			for dec.More() {
				kt, err := dec.Token()
				if err != nil {
					return n, err
				}
				key, ok := kt.(string)
				if !ok {
					return n, fmt.Errorf("object key is not a string")
				}
				kid, err := parseJValue(dec)
				if err != nil {
					return n, err
				}
				n.Keys = append(n.Keys, key)
				n.Kids = append(n.Kids, kid)
			}
			_, err := dec.Token()
			return n, err
		case '[':
			n := JNode{K: "arr"}
			for dec.More() {
				kid, err := parseJValue(dec)
				if err != nil {
					return n, err
				}
				n.Kids = append(n.Kids, kid)
			}
			_, err := dec.Token()
			return n, err
		}
		return JNode{}, fmt.Errorf("unexpected delimiter %v", v)
	case string:
		return JNode{K: "str", S: v}, nil
	case json.Number:
		return JNode{K: "num", Num: v.String()}, nil
	case bool:
		return JNode{K: "bool", B: v}, nil
	case nil:
		return JNode{K: "null"}, nil
	}
	return JNode{}, fmt.Errorf("unexpected token %v", tok)
}

// jnodeEqualOrdered compares trees including member order; numbers by literal.
func jnodeEqualOrdered(a, b JNode) bool { return a.Compact() == b.Compact() }

// ---------------------------------------------------------------------------------------------
// YAML documents

var yamlScalars = []string{"/-/-/-/", "1", "abc", "hello world", "true", "null", "\"quoted\"", "'single'", "1.5", "2024-01-02", "~", "a-b", "x_y"}

func genYAMLBlock(t *rapid.T, indent string, depth int) []string {
	var out []string
	n := rapid.IntRange(1, 4).Draw(t, "ymembers")
	keys := []string{"name", "age", "list", "nested", "key", "z", "a", "data", "text"}
	used := map[string]bool{}
	for i := 0; i < n; i++ {
		k := rapid.SampledFrom(keys).Draw(t, "ykey")
		if used[k] {
			continue
		}
		used[k] = true
		switch kind := rapid.IntRange(0, 9).Draw(t, "yk"); {
		case kind < 4:
			line := indent + k + ": " + rapid.SampledFrom(yamlScalars).Draw(t, "ysc")
			if rapid.IntRange(0, 5).Draw(t, "ycomment") == 0 {
				line += " # trailing comment"
			}
			out = append(out, line)
		case kind < 5 && depth > 0:
			out = append(out, indent+k+":")
			out = append(out, genYAMLBlock(t, indent+"  ", depth-1)...)
		case kind < 6:
			out = append(out, indent+k+":")
			m := rapid.IntRange(1, 3).Draw(t, "yseq")
			for j := 0; j < m; j++ {
				out = append(out, indent+"  - "+rapid.SampledFrom(yamlScalars).Draw(t, "yitem"))
			}
		case kind < 7:
			out = append(out, indent+k+": ["+rapid.SampledFrom([]string{"a, b", "1, 2, 3", "TestA - 2", ""}).Draw(t, "yflow")+"]")
		case kind < 8:
			out = append(out, indent+k+": |")
			m := rapid.IntRange(1, 3).Draw(t, "yblock")
			for j := 0; j < m; j++ {
				out = append(out, indent+"  "+rapid.SampledFrom([]string{"line", "---", "/-/-/-/", "[TestA - 1]", "more text", "# not a comment"}).Draw(t, "ybl"))
			}
		case kind < 9:
			out = append(out, indent+"# a comment line")
			out = append(out, indent+k+": {x: 1, y: two}")
		default:
			out = append(out, indent+k+": &anc"+k+" shared")
			out = append(out, indent+k+"_ref: *anc"+k)
			used[k+"_ref"] = true
		}
	}
	if len(out) == 0 {
		out = append(out, indent+"k: v")
	}
	return out
}

// genYAMLDocText draws YAML text (LF only). The result may or may not be valid for goccy; use yamlValid.
func genYAMLDocText(t *rapid.T) string {
	ndocs := rapid.SampledFrom([]int{1, 1, 1, 2, 3}).Draw(t, "ndocs")
	var lines []string
	// a separator line may carry trailing blanks or a comment: still a separator for YAML, but not the line `---`
	sep := func() string {
		return rapid.SampledFrom([]string{"---", "---", "---", "---", "--- ", "---\t", "---  ", "--- # next document"}).Draw(t, "sepline")
	}
	if rapid.IntRange(0, 9).Draw(t, "directive") == 0 {
		lines = append(lines, "%YAML 1.2", "---")
	} else if rapid.IntRange(0, 3).Draw(t, "leadsep") == 0 {
		lines = append(lines, sep())
	}
	for d := 0; d < ndocs; d++ {
		if d > 0 {
			lines = append(lines, sep())
		}
		switch rapid.IntRange(0, 11).Draw(t, "doctype") {
		case 11: // a flow collection broken over TAB-indented lines (json.MarshalIndent(v, "", "\t"), jq --tab): valid YAML
			lines = append(lines, rapid.SampledFrom([]string{"{\n\t\"a\": 1,\n\t\"b\": [\n\t\t1,\n\t\t2\n\t]\n}", "ports: [\n\t80,\n\t443\n]", "env: {\n\tA: 1,\n\tB: two\n}"}).Draw(t, "tabbed"))
		case 10: // an empty document: two separator lines in a row
		case 0:
			lines = append(lines, "- "+rapid.SampledFrom(yamlScalars).Draw(t, "seqitem"), "- second")
		case 1:
			lines = append(lines, "[TestA - "+fmt.Sprint(rapid.IntRange(1, 3).Draw(t, "hn"))+"]")
		case 2:
			lines = append(lines, rapid.SampledFrom(yamlScalars).Draw(t, "scalar"))
		default:
			lines = append(lines, genYAMLBlock(t, "", 2)...)
		}
	}
	if rapid.IntRange(0, 9).Draw(t, "docend") == 0 {
		lines = append(lines, "...")
	}
	text := strings.Join(lines, "\n")
	switch rapid.IntRange(0, 4).Draw(t, "final") {
	case 0: // no final newline
	case 1:
		text += "\n\n"
	case 2:
		text += "\n\n\n"
	default:
		text += "\n"
	}
	if rapid.IntRange(0, 11).Draw(t, "bom") == 0 {
		text = "\ufeff" + text // a file saved with a byte order mark, read with os.ReadFile
	}
	return text
}

// yamlValid: does the library go-snaps uses accept the text (only used to split the domain).
func yamlValid(text string) bool {
	var out any
	return yaml.Unmarshal([]byte(text), &out) == nil
}

// genValidYAML draws text that goccy accepts.
func genValidYAML(t *rapid.T) string {
	for i := 0; i < 10; i++ {
		s := genYAMLDocText(t)
		if yamlValid(s) {
			return s
		}
	}
	return "a: 1\n"
}

// yamlValueOf: a Go value (maps/slices/scalars) decoded from JSON text, for MatchYAML's "value" form.
func yamlValueOf(doc string) any {
	var v any
	if err := json.Unmarshal([]byte(doc), &v); err != nil {
		panic(fmt.Sprintf("yamlValueOf(%q): %v", doc, err))
	}
	return v
}
