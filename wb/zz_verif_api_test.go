//go:build verif

// The only harness file that calls the Match* API (so the "calling test file" of every call is this file).
package snaps

import (
	"bytes"
	"encoding/json"
	"errors"
	"fmt"
	"os"
	"path/filepath"
	"strings"
	"sync"

	"github.com/gkampitakis/go-snaps/match"
	"github.com/kr/pretty"
)

const apiFileBase = "zz_verif_api_test" // default Filename when none is configured

type JSONCfg struct {
	Width    int    `json:"width"`
	Indent   string `json:"indent"`
	SortKeys bool   `json:"sort_keys"`
}

// CfgSpec: a Config as data. Dir is always a directory name below the case's scratch root
// (the white-box harness never lets go-snaps derive a directory from the source location).
type CfgSpec struct {
	Dir      string   `json:"dir"`
	DirStyle string   `json:"dir_style,omitempty"` // "" | trailing | dot | dotdot | double : non-canonical spelling of the same directory
	Filename string   `json:"filename,omitempty"`
	Ext      string   `json:"ext,omitempty"`
	Update   *bool    `json:"update,omitempty"`
	JSON     *JSONCfg `json:"json,omitempty"`
	// PkgLevel: the call goes through the package-level function (snaps.MatchSnapshot(t, …)) instead of a Config method.
	// Only meaningful without Filename/Ext/Update/JSON. The harness points the package default directory at the scratch
	// directory for the duration of the call (the default is relative to the source file otherwise).
	PkgLevel bool `json:"package_level,omitempty"`
}

// package-level calls: build() returns a marker *Config; invoke recognises it and calls the package-level function
var (
	pkgLevelMu      sync.Mutex
	pkgLevelMarkers = map[*Config]string{}
)

func pkgLevelDir(cfg *Config) (string, bool) {
	pkgLevelMu.Lock()
	defer pkgLevelMu.Unlock()
	d, ok := pkgLevelMarkers[cfg]
	return d, ok
}

func (c CfgSpec) pkgLevelOK() bool {
	return c.PkgLevel && c.Filename == "" && c.Ext == "" && c.Update == nil && c.JSON == nil
}

// dirArg: the (absolute) directory as handed to snaps.Dir – possibly spelled non-canonically.
func (c CfgSpec) dirArg(root string) string {
	d := filepath.Join(root, c.Dir)
	switch c.DirStyle {
	case "trailing":
		return d + "/"
	case "dot":
		return root + "/./" + c.Dir
	case "dotdot":
		return d + "/sub/.."
	case "double":
		return root + "//" + c.Dir
	}
	return d
}

func (c CfgSpec) build(root string) *Config {
	if c.pkgLevelOK() {
		marker := &Config{}
		pkgLevelMu.Lock()
		if len(pkgLevelMarkers) > 4096 {
			pkgLevelMarkers = map[*Config]string{}
		}
		pkgLevelMarkers[marker] = c.dirArg(root)
		pkgLevelMu.Unlock()
		return marker
	}
	opts := []func(*Config){Dir(c.dirArg(root))}
	if c.Filename != "" {
		opts = append(opts, Filename(c.Filename))
	}
	if c.Ext != "" {
		opts = append(opts, Ext(c.Ext))
	}
	if c.Update != nil {
		opts = append(opts, Update(*c.Update))
	}
	if c.JSON != nil {
		opts = append(opts, JSON(JSONConfig{Width: c.JSON.Width, Indent: c.JSON.Indent, SortKeys: c.JSON.SortKeys}))
	}
	cfg := WithConfig(opts...)
	// the option slice belongs to the caller, who goes on to use it for the next Config of a table
	// (opts[i] = snaps.Filename(name); snaps.WithConfig(opts...)): what cfg was built with is settled
	for i := range opts {
		opts[i] = Filename("option-slice-reused-by-the-caller")
	}
	_ = WithConfig(opts...)
	return cfg
}

// multiPath: where the statement says multi-entry snapshots of this config live (relative to root).
func (c CfgSpec) multiPath() string {
	name := c.Filename
	if name == "" {
		name = apiFileBase
	}
	return filepath.Join(c.Dir, name+".snap"+c.Ext)
}

// standalonePath: k-th standalone call of test name (relative to root); jsonAPI selects the default ext.
func (c CfgSpec) standalonePath(test string, k int, jsonAPI bool) string {
	name := c.Filename
	if name == "" {
		name = strings.ReplaceAll(test, "/", "_")
	}
	ext := c.Ext
	if ext == "" && jsonAPI {
		ext = ".json"
	}
	return filepath.Join(c.Dir, fmt.Sprintf("%s_%d.snap%s", name, k, ext))
}

// MatcherSpec: a matcher as data.
type MatcherSpec struct {
	Kind        string          `json:"kind"` // any | type | custom
	Paths       []string        `json:"paths"`
	Placeholder json.RawMessage `json:"placeholder,omitempty"` // any: nil = default
	TypeName    string          `json:"type,omitempty"`        // type: string|float64|bool|map|slice|uint64|any
	ErrMissing  *bool           `json:"err_on_missing,omitempty"`
	Return      json.RawMessage `json:"return,omitempty"`     // custom: value returned
	ReturnErr   string          `json:"return_err,omitempty"` // custom: error returned
	// ReturnInput (custom, with ReturnErr): the callback returns the value it received together with the error
	ReturnInput bool `json:"return_input_with_error,omitempty"`
	// InPlace (custom): the callback scrubs the map / slice it receives IN PLACE and returns that very object
	// (m["scrubbed_by_callback"] = true; return m, nil); for other values it returns Return
	InPlace bool `json:"callback_mutates_argument_in_place,omitempty"`
	// Stmt: options are applied as plain statements on the matcher held in a variable (m := match.Any(..);
	// m.ErrOnMissingPath(false)) instead of chained calls whose return value is passed on
	Stmt bool `json:"options_as_statements,omitempty"`
	// Relaxed: before its final setting the matcher was relaxed once (m.ErrOnMissingPath(false) in an earlier table case,
	// a shared matcher another test loosened): the LAST setting (ErrMissing, default strict) is what counts
	Relaxed bool `json:"relaxed_before_the_final_setting,omitempty"`
}

type customObs struct {
	Path  string
	Value any
}

// matcher runtime: builds match.* values and records what Custom callbacks observed.
type matcherRT struct {
	observed []customObs
}

func decodeAny(raw json.RawMessage) any {
	if len(raw) == 0 {
		return nil
	}
	var v any
	if err := json.Unmarshal(raw, &v); err != nil {
		panic(err)
	}
	return v
}

type bothMatcher interface {
	match.JSONMatcher
	match.YAMLMatcher
}

func (rt *matcherRT) build(m MatcherSpec) bothMatcher {
	if m.Relaxed && m.ErrMissing == nil {
		m.ErrMissing = vhBoolp(true) // the final setting is spelled out
	}
	switch m.Kind {
	case "any":
		a := match.Any(m.Paths...)
		if m.Relaxed {
			a = a.ErrOnMissingPath(false)
		}
		if m.Stmt {
			if len(m.Placeholder) > 0 {
				a.Placeholder(decodeAny(m.Placeholder))
			}
			if m.ErrMissing != nil {
				a.ErrOnMissingPath(*m.ErrMissing)
			}
			return a
		}
		if len(m.Placeholder) > 0 {
			a = a.Placeholder(decodeAny(m.Placeholder))
		}
		if m.ErrMissing != nil {
			a = a.ErrOnMissingPath(*m.ErrMissing)
		}
		return a
	case "type":
		switch m.TypeName {
		case "string":
			return typeOpt(match.Type[string](m.Paths...), m.ErrMissing, m.Stmt, m.Relaxed)
		case "float64":
			return typeOpt(match.Type[float64](m.Paths...), m.ErrMissing, m.Stmt, m.Relaxed)
		case "bool":
			return typeOpt(match.Type[bool](m.Paths...), m.ErrMissing, m.Stmt, m.Relaxed)
		case "map":
			return typeOpt(match.Type[map[string]any](m.Paths...), m.ErrMissing, m.Stmt, m.Relaxed)
		case "slice":
			return typeOpt(match.Type[[]any](m.Paths...), m.ErrMissing, m.Stmt, m.Relaxed)
		case "uint64":
			return typeOpt(match.Type[uint64](m.Paths...), m.ErrMissing, m.Stmt, m.Relaxed)
		case "int":
			return typeOpt(match.Type[int](m.Paths...), m.ErrMissing, m.Stmt, m.Relaxed)
		case "any":
			return typeOpt(match.Type[any](m.Paths...), m.ErrMissing, m.Stmt, m.Relaxed)
		}
		panic("unknown type matcher " + m.TypeName)
	case "custom":
		path := m.Paths[0]
		c := match.Custom(path, func(val any) (any, error) {
			seen := val
			if m.InPlace {
				// what the callback SAW: a copy taken before it scrubs its argument
				if b, err := json.Marshal(val); err == nil {
					var cp any
					if json.Unmarshal(b, &cp) == nil {
						seen = cp
					}
				}
			}
			rt.observed = append(rt.observed, customObs{Path: path, Value: seen})
			if m.ReturnErr != "" {
				if m.ReturnInput {
					return val, errors.New(m.ReturnErr) // `return val, err`: the value as received together with the error
				}
				return nil, errors.New(m.ReturnErr)
			}
			if m.InPlace {
				switch v := val.(type) {
				case map[string]any:
					v["scrubbed_by_callback"] = true
					return v, nil
				case []any:
					if len(v) > 0 {
						v[0] = "scrubbed_by_callback"
						return v, nil
					}
				}
			}
			return decodeAny(m.Return), nil
		})
		if m.Relaxed {
			c = c.ErrOnMissingPath(false)
		}
		if m.ErrMissing != nil && m.Stmt {
			c.ErrOnMissingPath(*m.ErrMissing)
		} else if m.ErrMissing != nil {
			c = c.ErrOnMissingPath(*m.ErrMissing)
		}
		return c
	}
	panic("unknown matcher kind " + m.Kind)
}

type errOnMissinger[T any] interface {
	ErrOnMissingPath(bool) T
}

func typeOpt[T interface {
	bothMatcher
	errOnMissinger[T]
}](m T, e *bool, stmt bool, relaxed bool) bothMatcher {
	if relaxed {
		m = m.ErrOnMissingPath(false)
	}
	if e != nil && stmt {
		m.ErrOnMissingPath(*e)
		return m
	}
	if e != nil {
		return m.ErrOnMissingPath(*e)
	}
	return m
}

// Call: one Match* call as data.
type Call struct {
	API      string        `json:"api"` // snap | json | yaml | ssnap | sjson
	Cfg      int           `json:"cfg"`
	Vals     []Val         `json:"vals,omitempty"`     // snap: 1..3 values; ssnap: exactly 1
	Doc      BS            `json:"doc,omitempty"`      // json / sjson / yaml text
	Form     string        `json:"form,omitempty"`     // string | bytes | value
	Matchers []MatcherSpec `json:"matchers,omitempty"` // json / sjson / yaml
	// prebuilt, if set, are matcher values built once by the caller and reused across calls (instead of building from Matchers)
	prebuilt []bothMatcher
	// EmptyMatchers: with no matchers, the call passes an EMPTY (non-nil) matcher slice (`ms...` of a table case without
	// matchers) instead of no argument
	EmptyMatchers bool `json:"empty_matcher_slice,omitempty"`
}

func (c Call) standalone() bool { return c.API == "ssnap" || c.API == "sjson" }

// jsonValueOf decodes a JSON text into a Go value whose json.Marshal yields an equivalent document.
func jsonValueOf(doc string) any {
	dec := json.NewDecoder(strings.NewReader(doc))
	dec.UseNumber()
	var v any
	if err := dec.Decode(&v); err != nil {
		panic(fmt.Sprintf("jsonValueOf(%q): %v", doc, err))
	}
	return v
}

type callResult struct {
	Errors   []string
	Logs     []string
	Events   map[string]int // delta
	Observed []customObs
	InputOK  bool // caller's bytes/string unchanged by the call
}

// invoke performs the call through cfg on behalf of test t and reports what the test saw.
func (c Call) invoke(cfg *Config, t *fakeT) callResult {
	before := eventsSnapshot()
	rt := &matcherRT{}
	var jm []match.JSONMatcher
	var ym []match.YAMLMatcher
	for _, m := range c.Matchers {
		if c.prebuilt != nil {
			break
		}
		b := rt.build(m)
		jm = append(jm, b)
		ym = append(ym, b)
	}
	for _, b := range c.prebuilt {
		jm = append(jm, b)
		ym = append(ym, b)
	}
	if len(c.Matchers) == 0 && len(c.prebuilt) == 0 && c.EmptyMatchers {
		jm, ym = []match.JSONMatcher{}, []match.YAMLMatcher{}
	}
	inputOK := true
	doc := string(c.Doc)
	pkgDir, pkgLevel := pkgLevelDir(cfg)
	if pkgLevel {
		old := defaultConfig.snapsDir
		defaultConfig.snapsDir = pkgDir
		defer func() { defaultConfig.snapsDir = old }()
	}
	switch c.API {
	case "snap":
		vals := make([]any, len(c.Vals))
		for i, v := range c.Vals {
			vals[i] = v.Go()
		}
		if pkgLevel {
			MatchSnapshot(t, vals...)
		} else {
			cfg.MatchSnapshot(t, vals...)
		}
	case "ssnap":
		if pkgLevel {
			MatchStandaloneSnapshot(t, c.Vals[0].Go())
		} else {
			cfg.MatchStandaloneSnapshot(t, c.Vals[0].Go())
		}
	case "json", "sjson":
		var in any
		var check func() bool
		switch c.Form {
		case "bytes":
			b := []byte(doc)
			in = b
			check = func() bool { return bytes.Equal(b, []byte(doc)) }
		case "bytes_reused":
			// the test encodes every document into ONE buffer it keeps (bytes.Buffer.Reset + Encode): same backing array,
			// same length for documents of the same size, other content
			b := t.reuse(doc)
			in = b
			check = func() bool { return bytes.Equal(b, []byte(doc)) }
		case "value":
			in = jsonValueOf(doc)
		default:
			s := strings.Clone(doc)
			in = s
			check = func() bool { return s == doc }
		}
		switch {
		case c.API == "json" && pkgLevel:
			MatchJSON(t, in, jm...)
		case c.API == "json":
			cfg.MatchJSON(t, in, jm...)
		case pkgLevel:
			MatchStandaloneJSON(t, in, jm...)
		default:
			cfg.MatchStandaloneJSON(t, in, jm...)
		}
		if check != nil {
			inputOK = check()
		}
	case "yaml":
		var in any
		var check func() bool
		switch c.Form {
		case "bytes":
			b := []byte(doc)
			in = b
			check = func() bool { return bytes.Equal(b, []byte(doc)) }
		case "value":
			in = yamlValueOf(doc)
		default:
			s := strings.Clone(doc)
			in = s
			check = func() bool { return s == doc }
		}
		if pkgLevel {
			MatchYAML(t, in, ym...)
		} else {
			cfg.MatchYAML(t, in, ym...)
		}
		if check != nil {
			inputOK = check()
		}
	default:
		panic("unknown api " + c.API)
	}
	errs, logs := t.drain()
	after := eventsSnapshot()
	delta := map[string]int{}
	for k, v := range after {
		if d := v - before[k]; d != 0 {
			delta[k] = d
		}
	}
	return callResult{Errors: errs, Logs: logs, Events: delta, Observed: rt.observed, InputOK: inputOK}
}

// outcome classes
const (
	oPassed  = "passed"
	oAdded   = "added"
	oUpdated = "updated"
	oFailed  = "failed"
)

// outcomeOf maps what the test saw to exactly one outcome class, or explains why it is none.
func outcomeOf(r callResult) (string, error) {
	ev := func(k string) bool { return len(r.Events) == 1 && r.Events[k] == 1 }
	switch {
	case len(r.Errors) == 0 && len(r.Logs) == 0:
		if !ev("passed") {
			return "", fmt.Errorf("silent call but event counters moved by %v", r.Events)
		}
		return oPassed, nil
	case len(r.Errors) == 0 && len(r.Logs) == 1 && strings.Contains(r.Logs[0], "Snapshot added"):
		if !ev("added") {
			return "", fmt.Errorf("'added' log but event counters moved by %v", r.Events)
		}
		return oAdded, nil
	case len(r.Errors) == 0 && len(r.Logs) == 1 && strings.Contains(r.Logs[0], "Snapshot updated"):
		if !ev("updated") {
			return "", fmt.Errorf("'updated' log but event counters moved by %v", r.Events)
		}
		return oUpdated, nil
	case len(r.Errors) == 1 && len(r.Logs) == 0:
		if !ev("erred") {
			return "", fmt.Errorf("one error but event counters moved by %v", r.Events)
		}
		return oFailed, nil
	}
	return "", fmt.Errorf("not exactly one outcome: errors=%q logs=%q events=%v", vhClipAll(r.Errors), vhClipAll(r.Logs), r.Events)
}

func vhClipAll(ss []string) []string {
	out := make([]string, len(ss))
	for i, s := range ss {
		out[i] = vhClip(s)
	}
	return out
}

// snapText: formatted text of a single-value MatchSnapshot / MatchStandaloneSnapshot call.
func (c Call) snapText() string { return pretty.Sprint(c.Vals[0].Go()) }

func vhReadFile(p string) string {
	b, _ := os.ReadFile(p)
	return string(b)
}

func vhBoolp(b bool) *bool { return &b }
