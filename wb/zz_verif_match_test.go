//go:build verif

// Matcher properties: C15 (matchers change only what they target), C16 (masked fields never influence
// the snapshot), C17 (matcher failures fail the test and write nothing).
package snaps

import (
	"encoding/json"
	"fmt"
	"os"
	"path/filepath"
	"reflect"
	"sort"
	"strconv"
	"strings"
	"testing"

	"github.com/goccy/go-yaml"
	"pgregory.net/rapid"
)

// ---- paths ------------------------------------------------------------------------------------------------

type pathComp struct {
	Key   string `json:"key,omitempty"`
	Idx   int    `json:"idx,omitempty"`
	IsIdx bool   `json:"is_idx,omitempty"`
	// Query (JSON, with IsIdx/Idx = the element it selects): the component is written as a gjson first-match query #(k=="v")
	Query string `json:"query,omitempty"`
	// Each: every element of the array here (gjson `#`, YAML `[*]`); only in paths of match.Any
	Each bool `json:"each,omitempty"`
}

func hasEach(comps []pathComp) bool {
	for _, c := range comps {
		if c.Each {
			return true
		}
	}
	return false
}

// expandEach: the concrete paths an `each` path stands for in this tree (the elements in which the rest of the path exists).
func expandEach(tree JNode, comps []pathComp) [][]pathComp {
	for i, c := range comps {
		if !c.Each {
			continue
		}
		arr, ok := tree.at(comps[:i])
		if !ok || arr.K != "arr" {
			return nil
		}
		var out [][]pathComp
		for k := range arr.Kids {
			p := append(append(append([]pathComp{}, comps[:i]...), pathComp{Idx: k, IsIdx: true}), comps[i+1:]...)
			if _, ok := tree.at(p); ok {
				out = append(out, p)
			}
		}
		return out
	}
	return [][]pathComp{comps}
}

// genTable: an array of 1-4 records (objects with the members id, name, tags, meta), the shape paths with `#` / `[*]` are for.
// With holes, some records lack "name".
func genTable(t *rapid.T, holes bool) JNode {
	n := rapid.IntRange(1, 4).Draw(t, "nrows")
	arr := JNode{K: "arr"}
	for i := 0; i < n; i++ {
		row := JNode{K: "obj"}
		add := func(k string, v JNode) { row.Keys = append(row.Keys, k); row.Kids = append(row.Kids, v) }
		add("id", JNode{K: "num", Num: strconv.Itoa(100 + i)})
		if !(holes && i > 0 && rapid.Bool().Draw(t, "hole")) {
			add("name", JNode{K: "str", S: fmt.Sprintf("user%d", i)})
		}
		tags := JNode{K: "arr"}
		for k := rapid.IntRange(0, 2).Draw(t, "ntags"); k > 0; k-- {
			tags.Kids = append(tags.Kids, JNode{K: "str", S: rapid.SampledFrom([]string{"a", "b", "admin"}).Draw(t, "tag")})
		}
		add("tags", tags)
		arr.Kids = append(arr.Kids, row)
	}
	return arr
}

// genTablePath: a path into the table stored under "rows": every record's member (each), or the member of the record
// selected by a first-match query on its id (JSON only).
func genTablePath(t *rapid.T, table JNode, yamlDoc bool) []pathComp {
	member := rapid.SampledFrom([]string{"id", "name", "tags"}).Draw(t, "tablemember")
	if !yamlDoc && rapid.Bool().Draw(t, "query") {
		i := rapid.IntRange(0, len(table.Kids)-1).Draw(t, "row")
		if member == "id" {
			member = "tags"
		}
		if _, ok := table.Kids[i].at([]pathComp{{Key: member}}); !ok {
			member = "tags"
		}
		return []pathComp{{Key: "rows"}, {Idx: i, IsIdx: true, Query: fmt.Sprintf("id==%d", 100+i)}, {Key: member}}
	}
	return []pathComp{{Key: "rows"}, {Each: true}, {Key: member}}
}

func escapeGJSON(key string) string {
	var sb strings.Builder
	for i := 0; i < len(key); i++ {
		c := key[i]
		// '$', ':' and '/' have no meaning in gjson / sjson path syntax: users write them as they are
		if c >= 0x80 || c == '_' || c == '-' || c == '$' || c == ':' || c == '/' || (c >= '0' && c <= '9') || (c >= 'a' && c <= 'z') || (c >= 'A' && c <= 'Z') {
			sb.WriteByte(c)
			continue
		}
		sb.WriteByte('\\')
		sb.WriteByte(c)
	}
	return sb.String()
}

func gjsonPath(comps []pathComp) string {
	parts := make([]string, len(comps))
	for i, c := range comps {
		switch {
		case c.Each:
			parts[i] = "#"
		case c.Query != "":
			parts[i] = "#(" + c.Query + ")"
		case c.IsIdx:
			parts[i] = strconv.Itoa(c.Idx)
		default:
			parts[i] = escapeGJSON(c.Key)
		}
	}
	return strings.Join(parts, ".")
}

func yamlPath(comps []pathComp) string {
	p := "$"
	for _, c := range comps {
		switch {
		case c.Each:
			p += "[*]"
		case c.IsIdx:
			p += fmt.Sprintf("[%d]", c.Idx)
		default:
			p += "." + c.Key
		}
	}
	return p
}

func needsEscape(comps []pathComp) bool {
	for _, c := range comps {
		if !c.IsIdx && escapeGJSON(c.Key) != c.Key {
			return true
		}
	}
	return false
}

// normComp: a path component is text ("0" addresses element 0 of an array as well as member "0" of an object).
func normComp(cur JNode, c pathComp) pathComp {
	if c.Query != "" {
		// a first-match query is evaluated on the document as it is NOW (earlier matchers may have replaced the record)
		var want string
		if _, err := fmt.Sscanf(c.Query, "id==%s", &want); err == nil && cur.K == "arr" {
			for i, kid := range cur.Kids {
				if kid.K != "obj" {
					continue
				}
				if id, ok := kid.at([]pathComp{{Key: "id"}}); ok && id.K == "num" && id.Num == want {
					return pathComp{Idx: i, IsIdx: true}
				}
			}
		}
		return pathComp{Idx: 1 << 30, IsIdx: true} // selects nothing
	}
	if cur.K == "arr" && !c.IsIdx {
		if i, err := strconv.Atoi(c.Key); err == nil && i >= 0 && strconv.Itoa(i) == c.Key {
			return pathComp{Idx: i, IsIdx: true}
		}
	}
	if cur.K == "obj" && c.IsIdx {
		return pathComp{Key: strconv.Itoa(c.Idx)}
	}
	return c
}

func (n JNode) at(comps []pathComp) (JNode, bool) {
	cur := n
	for _, c := range comps {
		c = normComp(cur, c)
		switch {
		case cur.K == "arr" && c.IsIdx && c.Idx < len(cur.Kids):
			cur = cur.Kids[c.Idx]
		case cur.K == "obj" && !c.IsIdx:
			found := false
			for i, k := range cur.Keys {
				if k == c.Key {
					cur = cur.Kids[i]
					found = true
					break
				}
			}
			if !found {
				return JNode{}, false
			}
		default:
			return JNode{}, false
		}
	}
	return cur, true
}

func (n JNode) set(comps []pathComp, v JNode) JNode {
	if len(comps) == 0 {
		return v
	}
	out := n
	out.Kids = append([]JNode{}, n.Kids...)
	c := normComp(n, comps[0])
	if c.IsIdx {
		out.Kids[c.Idx] = n.Kids[c.Idx].set(comps[1:], v)
		return out
	}
	for i, k := range n.Keys {
		if k == c.Key {
			out.Kids[i] = n.Kids[i].set(comps[1:], v)
			break
		}
	}
	return out
}

// remove deletes the member / element at comps (ok=false if it does not exist).
func (n JNode) remove(comps []pathComp) (JNode, bool) {
	if len(comps) == 0 {
		return n, false
	}
	if _, ok := n.at(comps); !ok {
		return n, false
	}
	out := n
	c := normComp(n, comps[0])
	idx := -1
	if c.IsIdx {
		idx = c.Idx
	} else {
		for i, k := range n.Keys {
			if k == c.Key {
				idx = i
				break
			}
		}
	}
	if len(comps) > 1 {
		out.Kids = append([]JNode{}, n.Kids...)
		sub, ok := n.Kids[idx].remove(comps[1:])
		out.Kids[idx] = sub
		return out, ok
	}
	out.Kids = append(append([]JNode{}, n.Kids[:idx]...), n.Kids[idx+1:]...)
	if n.K == "obj" {
		out.Keys = append(append([]string{}, n.Keys[:idx]...), n.Keys[idx+1:]...)
	}
	return out, true
}

// genExistingPath walks the tree to a node (not the root). ok=false if the root has no addressable child.
func genExistingPath(t *rapid.T, n JNode, simpleKeysOnly bool) ([]pathComp, bool) {
	var comps []pathComp
	cur := n
	for depth := 0; depth < 6; depth++ {
		var cands []pathComp
		switch cur.K {
		case "obj":
			seenNumeric := false
			for _, k := range cur.Keys {
				if k == "" || (simpleKeysOnly && escapeGJSON(k) != k) {
					continue
				}
				if _, err := strconv.Atoi(k); err == nil {
					seenNumeric = true
				}
				cands = append(cands, pathComp{Key: k})
			}
			_ = seenNumeric
		case "arr":
			for i := range cur.Kids {
				cands = append(cands, pathComp{Idx: i, IsIdx: true})
			}
		}
		if len(cands) == 0 {
			break
		}
		c := cands[rapid.IntRange(0, len(cands)-1).Draw(t, "pathstep")]
		comps = append(comps, c)
		cur, _ = cur.at([]pathComp{c})
		if rapid.IntRange(0, 2).Draw(t, "stop") == 0 {
			break
		}
	}
	return comps, len(comps) > 0
}

// ---- model of values ------------------------------------------------------------------------------------------

// goValue: the Go value gjson/goccy hand to callbacks for this node (numbers as float64).
func (n JNode) goValue() any {
	switch n.K {
	case "obj":
		m := map[string]any{}
		for i, k := range n.Keys {
			m[k] = n.Kids[i].goValue()
		}
		return m
	case "arr":
		out := make([]any, len(n.Kids))
		for i := range n.Kids {
			out[i] = n.Kids[i].goValue()
		}
		return out
	case "str":
		return n.S
	case "num":
		f, _ := strconv.ParseFloat(n.Num, 64)
		return f
	case "bool":
		return n.B
	}
	return nil
}

func vhGoTypeName(n JNode) string {
	switch n.K {
	case "obj":
		return "map[string]interface {}"
	case "arr":
		return "[]interface {}"
	case "str":
		return "string"
	case "num":
		return "float64"
	case "bool":
		return "bool"
	}
	return "<nil>"
}

func typeMatcherName(n JNode) string {
	switch n.K {
	case "obj":
		return "map"
	case "arr":
		return "slice"
	case "str":
		return "string"
	case "num":
		return "float64"
	case "bool":
		return "bool"
	}
	return ""
}

// jnodeFromGo builds a tree from a decoded JSON value (numbers become float literals).
func jnodeFromRaw(raw json.RawMessage) JNode {
	n, err := parseJNode(string(raw))
	if err != nil {
		panic(err)
	}
	// the placeholder / callback result is a Go value (map[string]any for an object): encoding/json writes map keys sorted
	return n.sortedDeep()
}

func (n JNode) sortedDeep() JNode {
	out := n
	out.Kids = make([]JNode, len(n.Kids))
	for i, k := range n.Kids {
		out.Kids[i] = k.sortedDeep()
	}
	if n.K == "obj" {
		idx := vhIndices(len(n.Keys))
		sort.SliceStable(idx, func(a, b int) bool { return n.Keys[idx[a]] < n.Keys[idx[b]] })
		keys := make([]string, len(idx))
		kids := make([]JNode, len(idx))
		for i, j := range idx {
			keys[i], kids[i] = n.Keys[j], out.Kids[j]
		}
		out.Keys, out.Kids = keys, kids
	}
	if len(out.Kids) == 0 {
		out.Kids = n.Kids
	}
	return out
}

// looseEqual compares trees as JSON values: member order matters iff ordered; numbers numerically.
func looseEqual(a, b JNode, ordered bool) bool {
	if a.K != b.K {
		return false
	}
	switch a.K {
	case "obj":
		if len(a.Keys) != len(b.Keys) {
			return false
		}
		if ordered {
			for i := range a.Keys {
				if a.Keys[i] != b.Keys[i] || !looseEqual(a.Kids[i], b.Kids[i], ordered) {
					return false
				}
			}
			return true
		}
		for i, k := range a.Keys {
			bn, ok := b.at([]pathComp{{Key: k}})
			if !ok || !looseEqual(a.Kids[i], bn, ordered) {
				return false
			}
		}
		return true
	case "arr":
		if len(a.Kids) != len(b.Kids) {
			return false
		}
		for i := range a.Kids {
			if !looseEqual(a.Kids[i], b.Kids[i], ordered) {
				return false
			}
		}
		return true
	case "str":
		return a.S == b.S
	case "num":
		if a.Num == b.Num {
			return true
		}
		fa, e1 := strconv.ParseFloat(a.Num, 64)
		fb, e2 := strconv.ParseFloat(b.Num, 64)
		return e1 == nil && e2 == nil && fa == fb
	case "bool":
		return a.B == b.B
	}
	return true
}

var placeholderPool = []string{`"<Any value>"`, `"x"`, `""`, `"a much longer placeholder than the value it replaces, really long"`, `42`, `-7`, `1.5`, `true`, `null`,
	`{"k":1}`, `[1,"two"]`, `"«redacted»"`, `"<\"session\" id>"`, `"back\\slash"`, `"line\nbreak"`}

// ---- YAML rendering of simple trees ---------------------------------------------------------------------------

var yamlKeyPool = []string{"a", "b", "c", "name", "list", "zz", "key", "id", "idToken", "nameLast", "k1", "k10", "200", "8080", "ok?"}

func genYTree(t *rapid.T, depth int) JNode {
	k := rapid.IntRange(0, 9).Draw(t, "yk")
	if depth <= 0 && k < 5 {
		k += 5
	}
	switch {
	case k < 3:
		n := JNode{K: "obj"}
		seen := map[string]bool{}
		for i := rapid.IntRange(1, 4).Draw(t, "ynkeys"); i > 0; i-- {
			key := rapid.SampledFrom(yamlKeyPool).Draw(t, "ykey")
			if seen[key] {
				continue
			}
			seen[key] = true
			n.Keys = append(n.Keys, key)
			n.Kids = append(n.Kids, genYTree(t, depth-1))
		}
		return n
	case k < 5:
		n := JNode{K: "arr"}
		for i := rapid.IntRange(1, 3).Draw(t, "ynelems"); i > 0; i-- {
			n.Kids = append(n.Kids, genYTree(t, depth-1))
		}
		return n
	case k < 7:
		// (multi-line texts are rendered as literal block scalars: their trailing blanks and tabs belong to the value)
		return JNode{K: "str", S: rapid.SampledFrom([]string{"abc", "hello world", "x", "some text", "value", "abc", "value",
			"Merge pull request #123 from feature/x", "see issue #7: it's done", "first line\nsecond line\n", "a hard break  \nnext paragraph\n", "col a\tcol b\t\nrow 2\t\n", "echo start\nmake test\n"}).Draw(t, "ystr")}
	case k < 9:
		return JNode{K: "num", Num: strconv.Itoa(rapid.IntRange(0, 999).Draw(t, "ynum"))}
	default:
		if rapid.IntRange(0, 2).Draw(t, "ynull") == 0 {
			// a null: spelled `null`, `~` or left out (a bare key as templates render unset values); S carries the spelling
			return JNode{K: "null", S: rapid.SampledFrom([]string{"null", "~", ""}).Draw(t, "ynullspelling")}
		}
		return JNode{K: "bool", B: rapid.Bool().Draw(t, "yb")}
	}
}

func genYRoot(t *rapid.T) JNode {
	n := JNode{K: "obj"}
	seen := map[string]bool{}
	for i := rapid.IntRange(1, 4).Draw(t, "rootkeys"); i > 0; i-- {
		key := rapid.SampledFrom(yamlKeyPool).Draw(t, "rkey")
		if seen[key] {
			continue
		}
		seen[key] = true
		n.Keys = append(n.Keys, key)
		n.Kids = append(n.Kids, genYTree(t, 2))
	}
	return n
}

// renderYAML writes the tree as block YAML (2 spaces, sequences indented under their key).
func renderYAML(n JNode) string {
	var sb strings.Builder
	writeYAML(&sb, n, "", false)
	return sb.String()
}

func writeYAML(sb *strings.Builder, n JNode, indent string, inline bool) {
	switch n.K {
	case "obj":
		for i, k := range n.Keys {
			pre := indent
			if inline && i == 0 {
				pre = ""
			}
			kid := n.Kids[i]
			if (kid.K == "obj" || kid.K == "arr") && len(kid.Kids) > 0 {
				sb.WriteString(pre + k + ":\n")
				writeYAML(sb, kid, indent+"  ", false)
			} else if kid.K == "str" && strings.Contains(kid.S, "\n") {
				sb.WriteString(pre + k + ": |\n" + yamlBlock(kid.S, indent+"  "))
			} else {
				sb.WriteString(pre + k + ": " + yamlScalar(kid) + "\n")
			}
		}
	case "arr":
		for _, kid := range n.Kids {
			if kid.K == "obj" && len(kid.Kids) > 0 {
				sb.WriteString(indent + "- ")
				writeYAML(sb, kid, indent+"  ", true)
			} else if kid.K == "arr" && len(kid.Kids) > 0 {
				sb.WriteString(indent + "-\n")
				writeYAML(sb, kid, indent+"  ", false)
			} else if kid.K == "str" && strings.Contains(kid.S, "\n") {
				sb.WriteString(indent + "- |\n" + yamlBlock(kid.S, indent+"  "))
			} else {
				sb.WriteString(indent + "- " + yamlScalar(kid) + "\n")
			}
		}
	default:
		sb.WriteString(indent + yamlScalar(n) + "\n")
	}
}

// yamlBlock: the lines of a text that ends with one newline, as the body of a literal block scalar.
func yamlBlock(text, indent string) string {
	var sb strings.Builder
	for _, l := range strings.Split(strings.TrimSuffix(text, "\n"), "\n") {
		sb.WriteString(indent + l + "\n")
	}
	return sb.String()
}

func yamlScalar(n JNode) string {
	switch n.K {
	case "str":
		if strings.Contains(n.S, " #") || strings.Contains(n.S, ": ") {
			return "'" + strings.ReplaceAll(n.S, "'", "''") + "'" // single quoted, as helm / kubectl emit such strings
		}
		return n.S
	case "num":
		return n.Num
	case "bool":
		return strconv.FormatBool(n.B)
	case "obj":
		return "{}"
	case "arr":
		return "[]"
	case "null":
		if n.S == "~" {
			return "~"
		}
		if n.S == "" {
			return "" // bare key / bare sequence item
		}
	}
	return "null"
}

// parseYAMLTree parses YAML text into an ordered tree using goccy (the only YAML parser available offline).
func parseYAMLTree(text string) (JNode, error) {
	var v any
	if err := yaml.UnmarshalWithOptions([]byte(text), &v, yaml.UseOrderedMap()); err != nil {
		return JNode{}, err
	}
	return jnodeFromYAML(v), nil
}

func jnodeFromYAML(v any) JNode {
	switch x := v.(type) {
	case yaml.MapSlice:
		n := JNode{K: "obj"}
		for _, it := range x {
			n.Keys = append(n.Keys, fmt.Sprint(it.Key))
			n.Kids = append(n.Kids, jnodeFromYAML(it.Value))
		}
		return n
	case map[string]any:
		n := JNode{K: "obj"}
		for k, val := range x {
			n.Keys = append(n.Keys, k)
			n.Kids = append(n.Kids, jnodeFromYAML(val))
		}
		return n
	case []any:
		n := JNode{K: "arr"}
		for _, e := range x {
			n.Kids = append(n.Kids, jnodeFromYAML(e))
		}
		return n
	case string:
		return JNode{K: "str", S: x}
	case bool:
		return JNode{K: "bool", B: x}
	case nil:
		return JNode{K: "null"}
	case float64:
		return JNode{K: "num", Num: strconv.FormatFloat(x, 'g', -1, 64)}
	case float32:
		return JNode{K: "num", Num: strconv.FormatFloat(float64(x), 'g', -1, 64)}
	default:
		rv := reflect.ValueOf(v)
		switch rv.Kind() {
		case reflect.Int, reflect.Int8, reflect.Int16, reflect.Int32, reflect.Int64:
			return JNode{K: "num", Num: strconv.FormatInt(rv.Int(), 10)}
		case reflect.Uint, reflect.Uint8, reflect.Uint16, reflect.Uint32, reflect.Uint64:
			return JNode{K: "num", Num: strconv.FormatUint(rv.Uint(), 10)}
		}
		return JNode{K: "str", S: fmt.Sprint(v)}
	}
}

// ---- C15 ---------------------------------------------------------------------------------------------------

type matcherStep struct {
	Spec  MatcherSpec `json:"matcher"`
	Comps []pathComp  `json:"path"`
	// More: further paths of the same matcher (Any only), applied after Comps in order; nil = a path that does not exist
	More [][]pathComp `json:"more_paths,omitempty"`
	// MissingFirst: the matcher's first listed path does not exist (Any only)
	MissingFirst bool `json:"missing_first,omitempty"`
}

// allPaths: the matcher's paths in the order they are listed (nil = missing path).
func (st matcherStep) allPaths() [][]pathComp {
	var out [][]pathComp
	if st.MissingFirst {
		out = append(out, nil)
	}
	out = append(out, st.Comps)
	return append(out, st.More...)
}

type c15Case struct {
	Kind     string        `json:"kind"` // json | sjson | yaml
	Tree     JNode         `json:"tree"`
	SortKeys bool          `json:"sort_keys"`
	Form     string        `json:"form"`
	Steps    []matcherStep `json:"matchers"`
	Test     string        `json:"test"`
	Newline  bool          `json:"final_newline"` // yaml: document ends with a newline
	// Spaced, if set: the JSON text actually passed in (the tree with insignificant whitespace: an indented fixture)
	Spaced BS `json:"spaced_text,omitempty"`
}

// lastLeafIsBlock: the document's last value is a literal block scalar - its final newline is part of the VALUE.
func lastLeafIsBlock(n JNode) bool {
	for (n.K == "obj" || n.K == "arr") && len(n.Kids) > 0 {
		n = n.Kids[len(n.Kids)-1]
	}
	return n.K == "str" && strings.Contains(n.S, "\n")
}

func (c c15Case) finalNewline() bool { return c.Newline || lastLeafIsBlock(c.Tree) }

func (c c15Case) docText() string {
	if c.Kind != "yaml" && len(c.Spaced) > 0 {
		return string(c.Spaced)
	}
	if c.Kind == "yaml" {
		s := renderYAML(c.Tree)
		if !c.finalNewline() {
			s = strings.TrimSuffix(s, "\n")
		}
		return s
	}
	return c.Tree.Compact()
}

func genMatcherStep(t *rapid.T, kind string, cur JNode, comps []pathComp) matcherStep {
	path := gjsonPath(comps)
	if kind == "yaml" {
		path = yamlPath(comps)
	}
	node, _ := cur.at(comps)
	ms := MatcherSpec{Paths: []string{path}}
	switch k := rapid.IntRange(0, 5).Draw(t, "mkind"); {
	case k < 3:
		ms.Kind = "any"
		if rapid.Bool().Draw(t, "customph") {
			ph := rapid.SampledFrom(placeholderPool).Draw(t, "ph")
			if kind == "yaml" {
				ph = rapid.SampledFrom([]string{`"<Any value>"`, `"x"`, `42`, `true`, `{"k":1}`, `"longer placeholder text"`, `[1,2]`,
					// strings that are not safe plain scalars: they stay the caller's strings only if they are quoted on the way in
					`"***"`, `""`, `"null"`, `"~"`, `"0000"`, `"123"`, `"true"`, `"#id"`, `"masked: token"`, `"- dash"`, `"@at"`, `"%pct"`, `"a: b # c"`, `" lead"`, `"trail "`, `"1e3"`, `"0x1F"`, `"2024-01-02"`, `"&anchor"`, `"*alias"`, `"? q"`, `"| pipe"`, `"> gt"`, `"{brace"`, `"[bracket"`, `"'single"`, `"\"double"`}).Draw(t, "yph")
			} else if rel := rapid.IntRange(0, 5).Draw(t, "phrel"); rel < 3 {
				// placeholders related to the value they replace: the value itself, a string spelling its JSON source
				// text (escapes included, e.g. the 4 characters a\nb for the value "a<LF>b"), the same with the quotes
				src := node.Compact()
				switch rel {
				case 0:
					ph = src
				case 1:
					inner := src
					if node.K == "str" && len(src) >= 2 {
						inner = src[1 : len(src)-1]
					}
					b, _ := json.Marshal(inner)
					ph = string(b)
				default:
					b, _ := json.Marshal(src)
					ph = string(b)
				}
			}
			ms.Placeholder = json.RawMessage(ph)
		}
	case k < 4 && typeMatcherName(node) != "" && !(kind == "yaml" && node.K == "num"):
		ms.Kind = "type"
		ms.TypeName = typeMatcherName(node)
		if kind != "yaml" && rapid.IntRange(0, 2).Draw(t, "typeany") == 0 {
			ms.TypeName = "any" // accepts every value; the placeholder records the type found at that moment
		}
	default:
		ms.Kind = "custom"
		ret := rapid.SampledFrom(placeholderPool).Draw(t, "ret")
		if kind == "yaml" {
			ret = rapid.SampledFrom([]string{`"custom"`, `7`, `false`, `{"z":"y"}`}).Draw(t, "yret")
		}
		ms.Return = json.RawMessage(ret)
		if kind != "yaml" && (node.K == "obj" || node.K == "arr") && rapid.Bool().Draw(t, "inplace") {
			hasKey := false
			for _, k := range node.Keys {
				hasKey = hasKey || k == "scrubbed_by_callback"
			}
			ms.InPlace = !hasKey
		}
	}
	st := matcherStep{Spec: ms, Comps: comps}
	if (ms.Kind == "any" || (ms.Kind == "type" && ms.TypeName == "any")) && rapid.IntRange(0, 2).Draw(t, "multipath") == 0 {
		missing := "no.such.path"
		if kind == "yaml" {
			missing = "$.nosuch.path"
		}
		paths := []string{path}
		if rapid.Bool().Draw(t, "missingfirst") {
			st.MissingFirst = true
			paths = []string{missing, path}
		}
		for i := rapid.IntRange(0, 2).Draw(t, "nmore"); i > 0; i-- {
			more, ok := genExistingPath(t, cur, false)
			switch rapid.IntRange(0, 3).Draw(t, "morerel") {
			case 0: // the same path again
				more, ok = comps, true
			case 1: // a descendant of the first path
				if sub, ok2 := genExistingPath(t, node, false); ok2 {
					more, ok = append(append([]pathComp{}, comps...), sub...), true
				}
			}
			if ok {
				if _, still := cur.at(more); still {
					st.More = append(st.More, more)
					if kind == "yaml" {
						paths = append(paths, yamlPath(more))
					} else {
						paths = append(paths, gjsonPath(more))
					}
				}
			}
		}
		if rapid.IntRange(0, 3).Draw(t, "missinglast") == 0 {
			st.More = append(st.More, nil)
			paths = append(paths, missing)
		}
		hasMissing := st.MissingFirst
		for _, m := range st.More {
			if m == nil {
				hasMissing = true
			}
		}
		if hasMissing && rapid.IntRange(0, 3).Draw(t, "tolerant") > 0 {
			st.Spec.ErrMissing = vhBoolp(false)
		}
		st.Spec.Paths = paths
	}
	if st.Spec.ErrMissing != nil || len(st.Spec.Placeholder) > 0 {
		st.Spec.Stmt = rapid.Bool().Draw(t, "stmtform")
	}
	return st
}

// applyModel: the document after the matcher, per the statement. ok=false: an error is due
// (a path does not exist and missing paths are not tolerated).
func applyModel(cur JNode, st matcherStep) (JNode, bool) {
	ok := true
	for _, comps := range st.allPaths() {
		if hasEach(comps) {
			// match.Any on an `each` path: the member is replaced in every element that has it
			exps := expandEach(cur, comps)
			if len(exps) == 0 && (st.Spec.ErrMissing == nil || *st.Spec.ErrMissing) {
				ok = false
			}
			repl := JNode{K: "str", S: "<Any value>"}
			if len(st.Spec.Placeholder) > 0 {
				repl = jnodeFromRaw(st.Spec.Placeholder)
			}
			for _, p := range exps {
				cur = cur.set(p, repl)
			}
			continue
		}
		var node JNode
		exists := comps != nil
		if exists {
			node, exists = cur.at(comps)
		}
		if !exists {
			if st.Spec.ErrMissing == nil || *st.Spec.ErrMissing {
				ok = false
			}
			continue
		}
		var repl JNode
		switch st.Spec.Kind {
		case "any":
			if len(st.Spec.Placeholder) > 0 {
				repl = jnodeFromRaw(st.Spec.Placeholder)
			} else {
				repl = JNode{K: "str", S: "<Any value>"}
			}
		case "type":
			repl = JNode{K: "str", S: "<Type:" + vhGoTypeName(node) + ">"}
		case "custom":
			repl = jnodeFromRaw(st.Spec.Return)
			if st.Spec.InPlace {
				switch {
				case node.K == "obj":
					repl = node
					repl.Keys = append(append([]string{}, node.Keys...), "scrubbed_by_callback")
					repl.Kids = append(append([]JNode{}, node.Kids...), JNode{K: "bool", B: true})
					repl = repl.sortedDeep() // the result is a Go map: members come back sorted
				case node.K == "arr" && len(node.Kids) > 0:
					repl = node
					repl.Kids = append([]JNode{{K: "str", S: "scrubbed_by_callback"}}, node.Kids[1:]...)
					repl = repl.sortedDeep()
				}
			}
		}
		cur = cur.set(comps, repl)
	}
	return cur, ok
}

func genC15(t *rapid.T) c15Case {
	c := c15Case{Kind: rapid.SampledFrom([]string{"json", "json", "sjson", "yaml"}).Draw(t, "kind"), Test: genTestName(t), SortKeys: rapid.Bool().Draw(t, "sortkeys"), Newline: rapid.Bool().Draw(t, "nl")}
	if c.Kind == "yaml" {
		c.Tree = genYRoot(t)
		c.Form = rapid.SampledFrom([]string{"string", "bytes"}).Draw(t, "form")
	} else {
		for i := 0; i < 5; i++ {
			c.Tree = genJRoot(t, 3)
			if (c.Tree.K == "obj" || c.Tree.K == "arr") && len(c.Tree.Kids) > 0 {
				break
			}
		}
		c.Form = rapid.SampledFrom([]string{"string", "bytes", "bytes", "value"}).Draw(t, "form")
		if c.Form != "value" && rapid.Bool().Draw(t, "spaced") {
			c.Spaced = BS(c.Tree.Spaced(t))
		}
	}
	hasRows := false
	for _, k := range c.Tree.Keys {
		hasRows = hasRows || k == "rows"
	}
	if c.Tree.K == "obj" && !hasRows && len(c.Spaced) == 0 && rapid.IntRange(0, 3).Draw(t, "table") == 0 {
		// a table of records under "rows" and, as the first matcher, a path with gjson `#` / `#(..)` or YAML `[*]` into it
		table := genTable(t, c.Kind == "yaml" && rapid.Bool().Draw(t, "holes"))
		c.Tree.Keys = append(append([]string{}, c.Tree.Keys...), "rows")
		c.Tree.Kids = append(append([]JNode{}, c.Tree.Kids...), table)
		comps := genTablePath(t, table, c.Kind == "yaml")
		var st matcherStep
		if hasEach(comps) {
			path := gjsonPath(comps)
			if c.Kind == "yaml" {
				path = yamlPath(comps)
			}
			st = matcherStep{Spec: MatcherSpec{Kind: "any", Paths: []string{path}}, Comps: comps}
			if rapid.Bool().Draw(t, "tableph") {
				st.Spec.Placeholder = json.RawMessage(rapid.SampledFrom([]string{`"x"`, `7`, `"«redacted»"`, `[]`}).Draw(t, "tablephv"))
			}
		} else {
			st = genMatcherStep(t, c.Kind, c.Tree, comps)
			st.More, st.MissingFirst = nil, false
			st.Spec.Paths = []string{gjsonPath(comps)}
		}
		c.Steps = append(c.Steps, st)
	}
	cur := c.Tree
	for _, st := range c.Steps {
		cur, _ = applyModel(cur, st)
	}
	n := rapid.IntRange(1, 4).Draw(t, "nmatchers")
	for i := len(c.Steps); i < n; i++ {
		var comps []pathComp
		ok := false
		if i > 0 && !hasEach(c.Steps[i-1].Comps) && rapid.IntRange(0, 3).Draw(t, "samepath") == 0 {
			comps, ok = c.Steps[i-1].Comps, true // same path again / after a parent was replaced
			if rapid.Bool().Draw(t, "parent") && len(comps) > 1 {
				comps = comps[:len(comps)-1]
			}
		} else {
			comps, ok = genExistingPath(t, c.Tree, false)
		}
		if !ok {
			break
		}
		st := genMatcherStep(t, c.Kind, cur, comps)
		c.Steps = append(c.Steps, st)
		cur, _ = applyModel(cur, st)
	}
	return c
}

// runMatcherCall executes the call in a fresh directory and returns (result, stored text or "", root cleanup).
func runMatcherCall(kind, test, doc, form string, sortKeys bool, matchers []MatcherSpec, mode Mode) (callResult, string, error) {
	root := scratchDir()
	defer os.RemoveAll(root)
	newProcess(mode)
	spec := CfgSpec{Dir: "snaps", Filename: "f"}
	if !sortKeys {
		spec.JSON = &JSONCfg{SortKeys: false, Indent: " ", Width: 80}
	}
	api := kind
	if kind == "sjson" {
		spec.Filename = ""
	}
	if sortKeys && (len(doc)+len(matchers))%3 == 0 {
		spec.Filename, spec.PkgLevel = "", true // package-level MatchJSON / MatchStandaloneJSON / MatchYAML
	}
	ft := newFakeT(test)
	r := Call{API: api, Doc: BS(doc), Form: form, Matchers: matchers}.invoke(spec.build(root), ft)
	ft.finish()
	stored := ""
	switch kind {
	case "sjson":
		stored = vhReadFile(filepath.Join(root, spec.standalonePath(test, 1, true)))
	default:
		es, err := refParse(vhReadFile(filepath.Join(root, spec.multiPath())))
		if err != nil {
			return r, "", fmt.Errorf("file not well formed: %v", err)
		}
		if len(es) == 1 {
			stored = refUnescape(string(es[0].Body))
		} else if len(es) > 1 {
			return r, "", fmt.Errorf("one call created %d entries", len(es))
		}
	}
	if len(r.Errors) > 0 {
		for p, f := range snapDir(root) {
			if !f.IsDir {
				return r, stored, fmt.Errorf("the call reported an error but wrote %q", p)
			}
		}
	}
	return r, stored, nil
}

func checkC15(c c15Case) error {
	var specs []MatcherSpec
	for _, st := range c.Steps {
		specs = append(specs, st.Spec)
	}
	form := c.Form
	if c.Kind != "yaml" && c.Tree.K == "str" {
		form = "string"
	}
	r, stored, err := runMatcherCall(c.Kind, c.Test, c.docText(), form, c.SortKeys, specs, Mode{})
	if err != nil {
		return err
	}
	if !r.InputOK {
		return fmt.Errorf("the bytes/string the caller passed in were modified by the call (form %s)", form)
	}
	out, oerr := outcomeOf(r)
	if oerr != nil {
		return oerr
	}
	// model
	cur := c.Tree
	modelOK := true
	var wantObs []any
	for _, st := range c.Steps {
		if st.Spec.Kind == "custom" {
			if node, exists := cur.at(st.Comps); exists {
				wantObs = append(wantObs, node.goValue())
			}
		}
		var ok bool
		if cur, ok = applyModel(cur, st); !ok {
			modelOK = false
			break
		}
	}
	if out == oFailed {
		getCollector("C15", "TestC15_MatchersTargeted").bump("observed_reported_error(trivial)")
		return nil // a reported error is a legal outcome (counted as trivial)
	}
	getCollector("C15", "TestC15_MatchersTargeted").bump("observed_no_error")
	if out != oAdded {
		return fmt.Errorf("unexpected outcome %s", out)
	}
	if !modelOK {
		return fmt.Errorf("a matcher addressed a path that does not exist (any more) and missing paths are not tolerated, but no error was reported; stored %q", vhClip(stored))
	}
	var got JNode
	if c.Kind == "yaml" {
		got, err = parseYAMLTree(stored)
		if err != nil {
			return fmt.Errorf("stored YAML does not parse: %v: %q", err, vhClip(stored))
		}
		if c.finalNewline() != strings.HasSuffix(stored, "\n") {
			return fmt.Errorf("presence of the final newline changed: input newline=%v, stored %q", c.finalNewline(), vhClip(stored))
		}
	} else {
		if !json.Valid([]byte(stored)) {
			return fmt.Errorf("stored document is not valid JSON: %q", vhClip(stored))
		}
		got, err = parseJNode(stored)
		if err != nil {
			return fmt.Errorf("stored JSON does not parse: %v", err)
		}
	}
	ordered := c.Kind == "yaml" || (!c.SortKeys && form != "value")
	if !looseEqual(cur, got, ordered) {
		return fmt.Errorf("stored document is not the input with exactly the targeted values replaced (ordered=%v):\n input  %q\n want   %q\n stored %q", ordered, vhClip(c.docText()), vhClip(cur.Compact()), vhClip(got.Compact()))
	}
	// matcher VALUES built once and used for earlier documents first (a helper holding `var volatile = match.Any(...)`):
	// the document must store what it stores through fresh matcher values
	if err := checkC15Reuse(c, specs, form, stored); err != nil {
		return err
	}
	// callbacks observe the document as left by the matchers before them
	if len(r.Observed) != len(wantObs) {
		return fmt.Errorf("custom callbacks were invoked %d times, want %d", len(r.Observed), len(wantObs))
	}
	for i := range wantObs {
		a, _ := json.Marshal(normalizeNumbers(r.Observed[i].Value))
		b, _ := json.Marshal(normalizeNumbers(wantObs[i]))
		if string(a) != string(b) {
			return fmt.Errorf("custom callback %d observed %s, the document at that point holds %s (matchers must take effect left to right)", i+1, a, b)
		}
	}
	return nil
}

// c15WarmDocs: earlier documents for the reused matcher values: the document without the value at a later listed
// path of a multi-path matcher (an earlier listed path still exists), without the first path of a matcher, and an
// empty container.
func c15WarmDocs(c c15Case) []JNode {
	var out []JNode
	for _, st := range c.Steps {
		for k := len(st.More) - 1; k >= 0; k-- {
			if st.More[k] == nil {
				continue
			}
			if w, ok := c.Tree.remove(st.More[k]); ok {
				out = append(out, w)
				break
			}
		}
	}
	if len(c.Steps) > 0 {
		if w, ok := c.Tree.remove(c.Steps[0].Comps); ok {
			out = append(out, w)
		}
	}
	out = append(out, JNode{K: c.Tree.K})
	if len(out) > 3 {
		out = out[:3]
	}
	return out
}

func checkC15Reuse(c c15Case, specs []MatcherSpec, form, storedFresh string) error {
	if c.Tree.K != "obj" && c.Tree.K != "arr" {
		return nil
	}
	rt := &matcherRT{}
	var built []bothMatcher
	for _, m := range specs {
		built = append(built, rt.build(m))
	}
	root := scratchDir()
	defer os.RemoveAll(root)
	newProcess(Mode{})
	spec := CfgSpec{Dir: "snaps", Filename: "f"}
	if !c.SortKeys {
		spec.JSON = &JSONCfg{SortKeys: false, Indent: " ", Width: 80}
	}
	if c.Kind == "sjson" {
		spec.Filename = ""
	}
	text := func(n JNode) string {
		cc := c
		cc.Tree, cc.Spaced = n, ""
		return cc.docText()
	}
	warmForm := form
	if warmForm == "value" {
		warmForm = "string"
	}
	for i, w := range c15WarmDocs(c) {
		if c.Kind == "yaml" && len(w.Kids) == 0 {
			continue // the YAML rendering of an empty container is not part of the generator's grammar
		}
		ft := newFakeT(fmt.Sprintf("%sWarm%d", c.Test, i))
		Call{API: c.Kind, Doc: BS(text(w)), Form: warmForm, prebuilt: built}.invoke(spec.build(root), ft)
		ft.finish()
	}
	os.RemoveAll(filepath.Join(root, "snaps"))
	ft := newFakeT(c.Test)
	r := Call{API: c.Kind, Doc: BS(c.docText()), Form: form, prebuilt: built}.invoke(spec.build(root), ft)
	ft.finish()
	if out, _ := outcomeOf(r); out != oAdded {
		return fmt.Errorf("through matcher values that were used for earlier documents the call ended as %q (errors %q); through fresh matcher values it stored %q", out, vhClipAll(r.Errors), vhClip(storedFresh))
	}
	got := ""
	if c.Kind == "sjson" {
		got = vhReadFile(filepath.Join(root, spec.standalonePath(c.Test, 1, true)))
	} else {
		es, err := refParse(vhReadFile(filepath.Join(root, spec.multiPath())))
		if err != nil || len(es) != 1 {
			return fmt.Errorf("reused matcher values: %d entries (%v)", len(es), err)
		}
		got = refUnescape(string(es[0].Body))
	}
	if got != storedFresh {
		return fmt.Errorf("the same matcher values used for earlier documents change what this document stores:\n fresh  %q\n reused %q", vhClip(storedFresh), vhClip(got))
	}
	return nil
}

// normalizeNumbers maps every numeric kind to float64 so that uint64(1) and float64(1) compare equal.
func normalizeNumbers(v any) any {
	switch x := v.(type) {
	case map[string]any:
		m := map[string]any{}
		for k, e := range x {
			m[k] = normalizeNumbers(e)
		}
		return m
	case yaml.MapSlice:
		m := map[string]any{}
		for _, it := range x {
			m[fmt.Sprint(it.Key)] = normalizeNumbers(it.Value)
		}
		return m
	case []any:
		out := make([]any, len(x))
		for i := range x {
			out[i] = normalizeNumbers(x[i])
		}
		return out
	case string:
		// the value a YAML callback receives for a literal block scalar lacks the block's final newline and the blanks in front
		// of it (the library decodes the node's own text, which ends without them): the statement says nothing about the
		// fidelity of the value handed to a callback - not demanded (DESIGN §8)
		if strings.Contains(x, "\n") {
			return strings.TrimRight(x, " \t\n")
		}
		return x
	case nil, bool:
		return x
	}
	rv := reflect.ValueOf(v)
	switch rv.Kind() {
	case reflect.Int, reflect.Int8, reflect.Int16, reflect.Int32, reflect.Int64:
		return float64(rv.Int())
	case reflect.Uint, reflect.Uint8, reflect.Uint16, reflect.Uint32, reflect.Uint64:
		return float64(rv.Uint())
	case reflect.Float32, reflect.Float64:
		return rv.Float()
	}
	return v
}

func classifyC15(c c15Case) ([]string, bool) {
	cls := []string{"kind_" + c.Kind, "form_" + c.Form}
	nt := false
	if len(c.Spaced) > 0 && c.Form == "bytes" {
		cls = append(cls, "indented_bytes_input")
		nt = true
	}
	if len(c.Steps) >= 2 {
		cls = append(cls, "two_or_more_matchers")
		nt = true
	}
	for _, st := range c.Steps {
		if len(st.Comps) >= 2 {
			cls = append(cls, "path_depth_ge_2")
			nt = true
		}
		if needsEscape(st.Comps) {
			cls = append(cls, "key_needing_escape")
			nt = true
		}
		if st.Comps[len(st.Comps)-1].IsIdx {
			cls = append(cls, "array_element")
			nt = true
		}
		cls = append(cls, "matcher_"+st.Spec.Kind)
		if hasEach(st.Comps) {
			cls = append(cls, "path_addressing_every_element")
			nt = true
		}
		for _, pc := range st.Comps {
			if pc.Query != "" {
				cls = append(cls, "path_with_first_match_query")
				nt = true
			}
		}
		if st.Spec.InPlace {
			cls = append(cls, "custom_callback_mutating_its_argument_in_place")
			nt = true
		}
		if len(st.allPaths()) > 1 {
			cls = append(cls, "multi_path_matcher")
			nt = true
		}
		if node, ok := c.Tree.at(st.Comps); ok && c.Form == "bytes" {
			ph := `"<Any value>"`
			if len(st.Spec.Placeholder) > 0 {
				ph = string(st.Spec.Placeholder)
			}
			if st.Spec.Kind == "any" && len(ph) <= len(node.Compact()) {
				cls = append(cls, "placeholder_not_longer_bytes_input")
				nt = true
			}
		}
	}
	return vhUniq(cls), nt
}

// ---- K6 (known finding): strings that go-yaml marshals unquoted INSIDE a container ------------------------------------
// yaml.Marshal leaves `-`, `- x`, `? x`, `...` and strings with a leading tab unquoted. Top-level string placeholders are
// repaired in go-snaps (fix D12); the same strings nested in a map / slice placeholder (or Custom result) are written by the
// dependency's encoder and still do not arrive as the caller's strings. The main campaign never nests such strings; this
// probe generates only that class.
var k6Strings = []string{"-", "- x", "? q", "\ttab"}

func k6Case(c c15Case) bool {
	if c.Kind != "yaml" {
		return false
	}
	for _, st := range c.Steps {
		for _, u := range k6Strings {
			q, _ := json.Marshal(u)
			if ph := string(st.Spec.Placeholder); strings.Contains(ph, string(q)) && (strings.HasPrefix(ph, "{") || strings.HasPrefix(ph, "[")) {
				return true
			}
		}
	}
	return false
}

func TestC15K6_NestedUnquotedStrings(t *testing.T) {
	p := prop[c15Case]{property: "C15", check: checkC15, classify: func(c15Case) ([]string, bool) { return []string{"k6_probe"}, true },
		known: func(c c15Case, err error) string {
			if k6Case(c) {
				return "K6"
			}
			return ""
		}}
	p.enumerate(t, func(yield func(c15Case) bool) {
		if vhGetenv("VERIF_SHARD", "0") != "0" {
			return
		}
		for _, u := range k6Strings {
			for _, shape := range []string{`{"k":%s}`, `[%s,"plain"]`} {
				q, _ := json.Marshal(u)
				tree := JNode{K: "obj", Keys: []string{"a", "b"}, Kids: []JNode{{K: "num", Num: "0"}, {K: "num", Num: "1"}}}
				c := c15Case{Kind: "yaml", Tree: tree, Form: "string", Test: "TestK6", Newline: true, Steps: []matcherStep{{
					Spec:  MatcherSpec{Kind: "any", Paths: []string{"$.a"}, Placeholder: json.RawMessage(fmt.Sprintf(shape, q))},
					Comps: []pathComp{{Key: "a"}}}}}
				if !yield(c) {
					return
				}
			}
		}
	})
}

func TestC15_MatchersTargeted(t *testing.T) {
	prop[c15Case]{property: "C15", gen: genC15, check: checkC15, classify: classifyC15}.run(t)
}

// ---- C16 ---------------------------------------------------------------------------------------------------

type c16Case struct {
	Merged  bool          `json:"merged_any"` // all masked paths go into ONE Any matcher with ErrOnMissingPath(false)
	// TwoDocs (yaml): the input is a stream holding the document twice
	TwoDocs bool `json:"two_document_stream,omitempty"`
	// MergedPaths, if set: the path list of that one matcher (the masked paths interleaved with paths that do not exist)
	MergedPaths []string `json:"merged_paths,omitempty"`
	// ASCII (json/sjson): the input text spells every non-ASCII character of keys and strings as \uXXXX (the same document)
	ASCII bool `json:"input_in_ascii_only_spelling,omitempty"`
	// MergedType, if set: all masked paths go into ONE Type matcher of this type, in the order of Steps
	MergedType string `json:"merged_type,omitempty"`
	Kind    string        `json:"kind"`       // json | sjson | yaml
	D       JNode         `json:"d"`
	DPrime  JNode         `json:"d_masked_changed"`
	DDouble JNode         `json:"d_unmasked_changed"`
	HasDD   bool          `json:"has_unmasked_variant"`
	Steps   []matcherStep `json:"matchers"`
	Form    string        `json:"form"`
	Test    string        `json:"test"`
}

func vhNested(a, b []pathComp) bool {
	n := len(a)
	if len(b) < n {
		n = len(b)
	}
	for i := 0; i < n; i++ {
		if a[i] != b[i] {
			return false
		}
	}
	return true
}

func otherScalar(t *rapid.T, n JNode, yamlDoc bool) JNode {
	switch n.K {
	case "str":
		if i := strings.Index(n.S, "\n"); i >= 0 && rapid.Bool().Draw(t, "lineendblanks") {
			// only blanks in front of a line break differ (a markdown hard break, an empty last column)
			if strings.HasSuffix(n.S[:i], " ") || strings.HasSuffix(n.S[:i], "\t") {
				return JNode{K: "str", S: strings.TrimRight(n.S[:i], " \t") + n.S[i:]}
			}
			return JNode{K: "str", S: n.S[:i] + rapid.SampledFrom([]string{" ", "  ", "\t"}).Draw(t, "blanks") + n.S[i:]}
		}
		if strings.HasSuffix(n.S, "\n") {
			return JNode{K: "str", S: strings.TrimSuffix(n.S, "\n") + rapid.SampledFrom([]string{"x", " changed", "é"}).Draw(t, "ssfx") + "\n"}
		}
		return JNode{K: "str", S: n.S + rapid.SampledFrom([]string{"x", " changed", "é"}).Draw(t, "ssfx")}
	case "num":
		if yamlDoc {
			return JNode{K: "num", Num: strconv.Itoa(rapid.IntRange(1000, 2000).Draw(t, "ynum2"))}
		}
		if nb, ok := numNeighbour(n.Num); ok && rapid.Bool().Draw(t, "neighbour") {
			return JNode{K: "num", Num: nb}
		}
		alt := rapid.SampledFrom([]string{"7", "-3", "2.5", "1e3", "1000000"}).Draw(t, "num2")
		if alt == n.Num {
			alt = "8"
		}
		return JNode{K: "num", Num: alt}
	case "bool":
		return JNode{K: "bool", B: !n.B}
	}
	return JNode{K: "str", S: "was-null"}
}

// otherValueFor: a different value that satisfies the same matcher.
func otherValueFor(t *rapid.T, st matcherStep, n JNode, yamlDoc bool) JNode {
	if st.Spec.Kind == "type" {
		switch n.K {
		case "obj":
			return JNode{K: "obj", Keys: []string{"other"}, Kids: []JNode{{K: "num", Num: "1"}}}
		case "arr":
			return JNode{K: "arr", Kids: []JNode{{K: "str", S: "other"}, {K: "num", Num: "2"}}}
		}
		return otherScalar(t, n, yamlDoc)
	}
	switch rapid.IntRange(0, 5).Draw(t, "otherkind") {
	case 0:
		if !yamlDoc {
			return JNode{K: "null"}
		}
		return JNode{K: "str", S: "other text"}
	case 1:
		return JNode{K: "str", S: "a considerably longer replacement value than what was there before, for sure"}
	case 2:
		return JNode{K: "obj", Keys: []string{"deep"}, Kids: []JNode{{K: "arr", Kids: []JNode{{K: "num", Num: "1"}}}}}
	case 3:
		return JNode{K: "num", Num: strconv.Itoa(rapid.IntRange(0, 99999).Draw(t, "onum"))}
	case 4:
		return JNode{K: "bool", B: rapid.Bool().Draw(t, "ob")}
	default:
		return JNode{K: "str", S: ""}
	}
}

func genC16(t *rapid.T) c16Case {
	c := c16Case{Kind: rapid.SampledFrom([]string{"json", "json", "sjson", "yaml"}).Draw(t, "kind"), Test: genTestName(t)}
	yamlDoc := c.Kind == "yaml"
	if yamlDoc {
		c.D = genYRoot(t)
		c.Form = rapid.SampledFrom([]string{"string", "bytes"}).Draw(t, "form")
	} else {
		for i := 0; i < 5; i++ {
			c.D = genJRoot(t, 3)
			if (c.D.K == "obj" || c.D.K == "arr") && len(c.D.Kids) > 0 {
				break
			}
		}
		c.Form = rapid.SampledFrom([]string{"string", "bytes", "value"}).Draw(t, "form")
	}
	var masked [][]pathComp
	hasRows := false
	for _, k := range c.D.Keys {
		hasRows = hasRows || k == "rows"
	}
	if c.D.K == "obj" && !hasRows && rapid.IntRange(0, 3).Draw(t, "table") == 0 {
		// a table of records under "rows", masked through a path with gjson `#` / `#(..)` or YAML `[*]`
		table := genTable(t, yamlDoc && rapid.Bool().Draw(t, "holes"))
		c.D.Keys = append(append([]string{}, c.D.Keys...), "rows")
		c.D.Kids = append(append([]JNode{}, c.D.Kids...), table)
		comps := genTablePath(t, table, yamlDoc)
		path := gjsonPath(comps)
		if yamlDoc {
			path = yamlPath(comps)
		}
		ms := MatcherSpec{Kind: "any", Paths: []string{path}}
		if !hasEach(comps) && rapid.Bool().Draw(t, "tablecustom") {
			ms = MatcherSpec{Kind: "custom", Paths: []string{path}, Return: json.RawMessage(`"custom"`)}
		}
		masked = append(masked, comps[:1]) // nothing else is masked or varied below "rows"
		c.Steps = append(c.Steps, matcherStep{Spec: ms, Comps: comps})
	}
	for i := rapid.IntRange(1, 3).Draw(t, "nmasked"); i > 0; i-- {
		comps, ok := genExistingPath(t, c.D, true)
		if !ok {
			break
		}
		clash := false
		for _, m := range masked {
			if vhNested(m, comps) {
				clash = true
			}
		}
		if clash {
			continue
		}
		node, _ := c.D.at(comps)
		path := gjsonPath(comps)
		if yamlDoc {
			path = yamlPath(comps)
		}
		ms := MatcherSpec{Paths: []string{path}}
		switch k := rapid.IntRange(0, 5).Draw(t, "mk"); {
		case k < 3:
			ms.Kind = "any"
			if rapid.Bool().Draw(t, "ph") {
				ms.Placeholder = json.RawMessage(rapid.SampledFrom([]string{`"x"`, `"«redacted»"`, `"<\"session\" id>"`, `7`, `"masked value placeholder"`}).Draw(t, "phv"))
				ms.Stmt = rapid.Bool().Draw(t, "stmtform")
			}
		case k < 5 && node.K != "null":
			ms.Kind = "type"
			ms.TypeName = typeMatcherName(node)
			if yamlDoc && node.K == "num" {
				ms.TypeName = "uint64"
			}
		default:
			ms.Kind = "custom"
			ms.Return = json.RawMessage(rapid.SampledFrom([]string{`"custom"`, `"«c»"`, `0`, `null`, `null`}).Draw(t, "cret")) // (nil, nil): "checked, blanked out"
		}
		masked = append(masked, comps)
		c.Steps = append(c.Steps, matcherStep{Spec: ms, Comps: comps})
	}
	if len(c.Steps) >= 1 && rapid.IntRange(0, 2).Draw(t, "merged") == 0 {
		c.Merged = true
		for i := range c.Steps {
			c.Steps[i].Spec = MatcherSpec{Kind: "any", Paths: c.Steps[i].Spec.Paths}
		}
	}
	if c.Merged && rapid.Bool().Draw(t, "mergedmissing") {
		// paths that do not exist, listed next to the existing ones: the text of an existing path minus its last
		// character (a sibling name that is a prefix: token / tokenExpiry), and an existing path plus one character
		for _, st := range c.Steps {
			p := st.Spec.Paths[0]
			last := st.Comps[len(st.Comps)-1]
			if parent, ok := c.D.at(st.Comps[:len(st.Comps)-1]); ok && !last.IsIdx && len(last.Key) >= 2 && escapeGJSON(last.Key) == last.Key {
				trunc := last.Key[:len(last.Key)-1]
				if _, exists := parent.at([]pathComp{{Key: trunc}}); !exists && parent.K == "obj" {
					c.MergedPaths = append(c.MergedPaths, p[:len(p)-1])
				}
			}
			c.MergedPaths = append(c.MergedPaths, p)
			if parent, ok := c.D.at(st.Comps[:len(st.Comps)-1]); ok && !last.IsIdx && parent.K == "obj" && rapid.Bool().Draw(t, "longer") {
				if _, exists := parent.at([]pathComp{{Key: last.Key + "x"}}); !exists {
					c.MergedPaths = append(c.MergedPaths, p+"x")
				}
			}
		}
	}
	c.TwoDocs = yamlDoc && c.D.K == "obj" && rapid.IntRange(0, 3).Draw(t, "twodocs") == 0
	c.ASCII = !yamlDoc && rapid.IntRange(0, 3).Draw(t, "asciispelling") == 0
	c.DPrime = c.D
	for _, st := range c.Steps {
		for _, p := range expandEach(c.D, st.Comps) {
			node, _ := c.DPrime.at(p)
			c.DPrime = c.DPrime.set(p, otherValueFor(t, st, node, yamlDoc))
		}
	}
	// one unmasked scalar changed
	base := c.D
	if rapid.Bool().Draw(t, "fromprime") {
		base = c.DPrime
	}
	c.DDouble = base
	for tries := 0; tries < 8; tries++ {
		comps, ok := genExistingPath(t, c.D, false)
		if !ok {
			break
		}
		clash := false
		for _, m := range masked {
			if vhNested(m, comps) {
				clash = true
			}
		}
		node, exists := base.at(comps)
		if clash || !exists || node.K == "obj" || node.K == "arr" {
			continue
		}
		c.DDouble = base.set(comps, otherScalar(t, node, yamlDoc))
		c.HasDD = true
		break
	}
	return c
}

func (c c16Case) text(n JNode) string {
	if c.Kind == "yaml" {
		if c.TwoDocs {
			// a stream of two documents of the same shape (rendered manifests): the matchers apply to every document
			y := renderYAML(n)
			return y + "---\n" + y
		}
		return renderYAML(n)
	}
	if c.ASCII {
		return n.CompactASCII()
	}
	return n.Compact()
}

func (c c16Case) specs() []MatcherSpec {
	if c.MergedType != "" {
		m := MatcherSpec{Kind: "type", TypeName: c.MergedType}
		for _, st := range c.Steps {
			m.Paths = append(m.Paths, st.Spec.Paths[0])
		}
		return []MatcherSpec{m}
	}
	if c.Merged {
		m := MatcherSpec{Kind: "any", ErrMissing: vhBoolp(false), Stmt: len(c.Test)%2 == 1}
		for _, st := range c.Steps {
			m.Paths = append(m.Paths, st.Spec.Paths[0])
		}
		if len(c.MergedPaths) > 0 {
			m.Paths = c.MergedPaths
		}
		return []MatcherSpec{m}
	}
	var out []MatcherSpec
	for _, st := range c.Steps {
		out = append(out, st.Spec)
	}
	return out
}

func checkC16(c c16Case) error {
	if len(c.Steps) == 0 {
		return nil
	}
	form := func(n JNode) string {
		if c.Kind != "yaml" && n.K == "str" {
			return "string"
		}
		return c.Form
	}
	spec := CfgSpec{Dir: "snaps", Filename: "f"}
	if c.Kind == "sjson" {
		spec.Filename = ""
	}
	if len(c.Test)%2 == 0 {
		spec.Filename, spec.PkgLevel = "", true // package-level entry points
	}
	record := func(root string, n JNode) (string, error) {
		newProcess(Mode{})
		ft := newFakeT(c.Test)
		r := Call{API: c.Kind, Doc: BS(c.text(n)), Form: form(n), Matchers: c.specs()}.invoke(spec.build(root), ft)
		ft.finish()
		out, err := outcomeOf(r)
		if err != nil {
			return "", err
		}
		if out == oFailed {
			// every matcher is satisfiable on this document by construction (existing path, matching type)
			return "", fmt.Errorf("matchers that are satisfiable on the document reported a failure: %q (document %q)", vhClipAll(r.Errors), vhClip(c.text(n)))
		}
		if out != oAdded {
			return "", fmt.Errorf("recording: outcome %s", out)
		}
		st := snapDir(root)
		var all []string
		for p, f := range st {
			if !f.IsDir {
				all = append(all, p+"\x00"+f.Data)
			}
		}
		if len(all) != 1 {
			return "", fmt.Errorf("recording wrote %d files", len(all))
		}
		return all[0], nil
	}
	replay := func(root string, n JNode) (string, callResult, error) {
		newProcess(Mode{CI: true})
		ageDir(root)
		before := snapDir(root)
		ft := newFakeT(c.Test)
		r := Call{API: c.Kind, Doc: BS(c.text(n)), Form: form(n), Matchers: c.specs()}.invoke(spec.build(root), ft)
		ft.finish()
		out, err := outcomeOf(r)
		if err != nil {
			return "", r, err
		}
		if d := diffDirs(before, snapDir(root), true); d != "" {
			return out, r, fmt.Errorf("a read-only call wrote: %s", d)
		}
		return out, r, nil
	}
	col := getCollector("C16", "TestC16_MaskedFields")
	root1 := scratchDir()
	defer os.RemoveAll(root1)
	root2 := scratchDir()
	defer os.RemoveAll(root2)
	s1, err := record(root1, c.D)
	if err != nil {
		return fmt.Errorf("D: %v", err)
	}
	s2, err := record(root2, c.DPrime)
	if err != nil {
		return fmt.Errorf("D': %v", err)
	}
	if s1 == "" || s2 == "" {
		col.bump("observed_matcher_error_on_input(trivial)")
		return nil
	}
	col.bump("observed_satisfiable")
	if s1 != s2 {
		return fmt.Errorf("inputs differing only at masked paths store different snapshots:\n D  %q -> %q\n D' %q -> %q", vhClip(c.text(c.D)), vhClip(s1), vhClip(c.text(c.DPrime)), vhClip(s2))
	}
	if out, r, err := replay(root1, c.DPrime); err != nil || out != oPassed {
		return fmt.Errorf("D' against the snapshot of D: outcome %q err %v errors=%q", out, err, vhClipAll(r.Errors))
	}
	if out, r, err := replay(root2, c.D); err != nil || out != oPassed {
		return fmt.Errorf("D against the snapshot of D': outcome %q err %v errors=%q", out, err, vhClipAll(r.Errors))
	}
	// matcher VALUES reused across calls (as a test helper holding `var masks = match.Any(...)` does): a warm-up document
	// that lacks the first masked member, then D – D must store exactly what it stores through fresh matcher values
	{
		rt := &matcherRT{}
		var built []bothMatcher
		for _, m := range c.specs() {
			built = append(built, rt.build(m))
		}
		warm := c.D
		if first := c.Steps[0].Comps; len(first) == 1 && !first[0].IsIdx && c.D.K == "obj" {
			warm = JNode{K: "obj"}
			for i, k := range c.D.Keys {
				if k != first[0].Key {
					warm.Keys = append(warm.Keys, k)
					warm.Kids = append(warm.Kids, c.D.Kids[i])
				}
			}
		}
		root3 := scratchDir()
		defer os.RemoveAll(root3)
		newProcess(Mode{})
		ft := newFakeT(c.Test + "Warm")
		Call{API: c.Kind, Doc: BS(c.text(warm)), Form: form(warm), prebuilt: built}.invoke(spec.build(root3), ft)
		ft.finish()
		os.RemoveAll(filepath.Join(root3, "snaps"))
		ft = newFakeT(c.Test)
		r3 := Call{API: c.Kind, Doc: BS(c.text(c.D)), Form: form(c.D), prebuilt: built}.invoke(spec.build(root3), ft)
		ft.finish()
		if out3, _ := outcomeOf(r3); out3 != oAdded {
			return fmt.Errorf("D through reused matcher values: outcome %q errors=%q", out3, vhClipAll(r3.Errors))
		}
		var all []string
		for p, f := range snapDir(root3) {
			if !f.IsDir {
				all = append(all, p+"\x00"+f.Data)
			}
		}
		if len(all) != 1 || all[0] != s1 {
			return fmt.Errorf("the same matcher values used for an earlier document change what D stores:\n fresh  %q\n reused %q", vhClip(s1), vhClip(strings.Join(all, "|")))
		}
	}
	if c.HasDD {
		out, r, err := replay(root1, c.DDouble)
		if err != nil {
			return fmt.Errorf("D'' (unmasked value changed): %v", err)
		}
		if out != oFailed {
			return fmt.Errorf("an input that differs at a path no matcher covers ended as %q against the snapshot of D: D %q  D'' %q (errors=%q)", out, vhClip(c.text(c.D)), vhClip(c.text(c.DDouble)), vhClipAll(r.Errors))
		}
	}
	return nil
}

func classifyC16(c c16Case) ([]string, bool) {
	cls := []string{"kind_" + c.Kind}
	for _, st := range c.Steps {
		cls = append(cls, "matcher_"+st.Spec.Kind)
		if n, ok := c.DPrime.at(st.Comps); ok && n.K == "null" {
			cls = append(cls, "masked_null")
		}
		if n, ok := c.D.at(st.Comps); ok && n.K == "null" {
			cls = append(cls, "masked_null")
		}
	}
	if c.HasDD {
		cls = append(cls, "unmasked_variant")
	}
	if c.Merged {
		cls = append(cls, "merged_any")
	}
	if c.TwoDocs {
		cls = append(cls, "two_document_yaml_stream")
	}
	if len(c.MergedPaths) > len(c.Steps) {
		cls = append(cls, "merged_any_with_missing_sibling_paths")
	}
	for _, st := range c.Steps {
		if !st.Comps[0].IsIdx && st.Comps[0].Key == "$" {
			cls = append(cls, "path_below_dollar_key")
		}
	}
	return vhUniq(cls), len(c.Steps) >= 1 && c.text(c.D) != c.text(c.DPrime)
}

// genC16Flat: a flat record whose members (ids, timestamps, tokens: numbers of 1-15 digits or strings of 0-20 bytes) are all
// masked by ONE Type matcher that lists them in an order of its own - not the order of the document. The variants differ in
// the LENGTH of every masked value, so that every replacement moves what follows it by another amount.
func genC16Flat(t *rapid.T) c16Case {
	c := c16Case{Kind: rapid.SampledFrom([]string{"json", "sjson"}).Draw(t, "kind"), Test: genTestName(t), Form: rapid.SampledFrom([]string{"string", "bytes"}).Draw(t, "form")}
	keys := rapid.Permutation([]string{"a", "b", "c", "id", "ts", "k10", "name"}).Draw(t, "keys")[:rapid.IntRange(3, 6).Draw(t, "nkeys")]
	c.MergedType = rapid.SampledFrom([]string{"float64", "string"}).Draw(t, "type")
	value := func(label string) JNode {
		if c.MergedType == "float64" {
			k := rapid.IntRange(1, 15).Draw(t, label)
			return JNode{K: "num", Num: "1" + strings.Repeat("0", k-1)}
		}
		return JNode{K: "str", S: strings.Repeat("u", rapid.IntRange(0, 20).Draw(t, label))}
	}
	c.D, c.DPrime = JNode{K: "obj"}, JNode{K: "obj"}
	for _, k := range keys {
		c.D.Keys, c.DPrime.Keys = append(c.D.Keys, k), append(c.DPrime.Keys, k)
		c.D.Kids, c.DPrime.Kids = append(c.D.Kids, value("len")), append(c.DPrime.Kids, value("len2"))
	}
	for _, k := range rapid.Permutation(keys).Draw(t, "listed") {
		comps := []pathComp{{Key: k}}
		c.Steps = append(c.Steps, matcherStep{Spec: MatcherSpec{Kind: "type", TypeName: c.MergedType, Paths: []string{gjsonPath(comps)}}, Comps: comps})
	}
	for _, d := range []*JNode{&c.D, &c.DPrime} {
		d.Keys, d.Kids = append(d.Keys, "unmasked"), append(d.Kids, JNode{K: "bool", B: true})
	}
	c.DDouble = c.D.set([]pathComp{{Key: "unmasked"}}, JNode{K: "bool", B: false})
	c.HasDD = true
	return c
}

func TestC16_OneTypeMatcherManyPaths(t *testing.T) {
	prop[c16Case]{property: "C16", gen: genC16Flat, check: checkC16, classify: classifyC16, weight: 0.5}.run(t)
}

func TestC16_MaskedFields(t *testing.T) {
	prop[c16Case]{property: "C16", gen: genC16, check: checkC16, classify: classifyC16}.run(t)
}

// ---- C17 ---------------------------------------------------------------------------------------------------

type c17Matcher struct {
	FailPath string     `json:"fail_path,omitempty"` // the path that must be named (default: the matcher's first path)
	// AlsoNamed: further paths of this matcher that the failure must name
	AlsoNamed []string `json:"also_named_paths,omitempty"`
	// AfterFailedSibling: satisfiable; the matcher before it failed on its first path and also lists this matcher's path
	AfterFailedSibling bool `json:"after_a_failed_matcher_that_lists_the_same_path,omitempty"`
	// DependsOnEarlier: this matcher fails only because an earlier, satisfiable matcher replaced the value it addresses
	DependsOnEarlier bool `json:"fails_because_of_earlier_matcher,omitempty"`
	Spec    MatcherSpec `json:"matcher"`
	Failing bool        `json:"failing"` // must be named in the error
	Ignored bool        `json:"ignored"` // missing path under ErrOnMissingPath(false)
	Name    string      `json:"name"`    // Any | Type | Custom
	Comps   []pathComp  `json:"path,omitempty"`
}

type c17Case struct {
	NoExisting bool       `json:"no_existing_entry,omitempty"` // ci / update_false: the slot of the call under test holds nothing
	// ExistingSame: the slot already holds exactly what this document stores WITHOUT matchers (the matchers were added to a
	// test that has its snapshot): a failing matcher fails the call all the same
	ExistingSame bool `json:"existing_entry_is_the_document_itself,omitempty"`
	Suffix   string       `json:"yaml_suffix,omitempty"` // yaml: appended to the document ("---\n": a trailing empty document)
	Empty    *string      `json:"yaml_empty_doc,omitempty"` // yaml: the whole document is this (empty) text; every matcher path is missing
	Kind     string       `json:"kind"` // json | sjson | yaml
	Tree     JNode        `json:"tree"`
	Matchers []c17Matcher `json:"matchers"`
	ModeKind string       `json:"mode"` // create | update_existing | update_false | ci
	Before   int          `json:"calls_before"`
	After    int          `json:"calls_after"`
	Test     string       `json:"test"`
	Form     string       `json:"form"`
}

func wrongType(n JNode, yamlDoc bool) string {
	switch n.K {
	case "str":
		return "bool"
	case "num":
		return "string"
	case "bool":
		return "string"
	case "obj":
		return "slice"
	case "arr":
		return "map"
	}
	return "string"
}

func genC17(t *rapid.T) c17Case {
	c := c17Case{Kind: rapid.SampledFrom([]string{"json", "json", "sjson", "yaml"}).Draw(t, "kind"), Test: genTestName(t),
		ModeKind: rapid.SampledFrom([]string{"create", "update_existing", "update_false", "ci"}).Draw(t, "mode"), NoExisting: rapid.IntRange(0, 2).Draw(t, "noexisting") == 0,
		Before:   rapid.IntRange(0, 2).Draw(t, "before"), After: rapid.IntRange(1, 3).Draw(t, "after")}
	existingSame := c.ModeKind != "create" && rapid.IntRange(0, 3).Draw(t, "existingsame") == 0
	yamlDoc := c.Kind == "yaml"
	if yamlDoc {
		c.Tree = genYRoot(t)
		c.Form = rapid.SampledFrom([]string{"string", "bytes"}).Draw(t, "form")
	} else {
		for i := 0; i < 5; i++ {
			c.Tree = genJRoot(t, 3)
			if (c.Tree.K == "obj" || c.Tree.K == "arr") && len(c.Tree.Kids) > 0 {
				break
			}
		}
		c.Form = rapid.SampledFrom([]string{"string", "bytes", "value"}).Draw(t, "form")
	}
	missing := func(i int) string {
		if yamlDoc {
			return fmt.Sprintf("$.nosuch%d.path", i)
		}
		return fmt.Sprintf("nosuch%d.path", i)
	}
	if yamlDoc {
		c.Suffix = rapid.SampledFrom([]string{"", "", "", "---\n", "...\n", "\n"}).Draw(t, "yamlsuffix")
		if rapid.IntRange(0, 7).Draw(t, "emptydoc") == 0 {
			e := rapid.SampledFrom([]string{"", "\n", "---\n", "# nothing but a comment\n"}).Draw(t, "emptytext")
			c.Empty = &e
			c.Tree = JNode{K: "obj"}
		}
	}
	var used [][]pathComp
	n := rapid.IntRange(1, 5).Draw(t, "nmatchers")
	// a dozen guarded paths failing at once (the parent key was renamed): every one of them must be named
	manyFail := rapid.IntRange(0, 9).Draw(t, "manyfail") == 0
	if manyFail {
		n = rapid.IntRange(11, 14).Draw(t, "nmany")
	}
	for i := 0; i < n; i++ {
		m := c17Matcher{}
		kind := rapid.IntRange(0, 11).Draw(t, "mk")
		if manyFail && i < n-1 {
			kind = 0
		}
		comps, ok := genExistingPath(t, c.Tree, true)
		if ok {
			for _, u := range used {
				if vhNested(u, comps) {
					ok = false
				}
			}
		}
		path := ""
		var node JNode
		if ok {
			node, _ = c.Tree.at(comps)
			path = gjsonPath(comps)
			if yamlDoc {
				path = yamlPath(comps)
			}
		}
		switch {
		case kind < 2 || !ok: // missing path
			which := rapid.SampledFrom([]string{"any", "type", "custom"}).Draw(t, "mwhich")
			mp := missing(i)
			if ok {
				// other ways for a path not to exist: below a scalar, beyond the end of an array, an unknown member of a nested object
				switch rapid.IntRange(0, 3).Draw(t, "misskind") {
				case 0:
					if node.K != "obj" && node.K != "arr" {
						mp = path + ".below_a_scalar"
					}
				case 1:
					if node.K == "arr" {
						if yamlDoc {
							mp = path + "[99]"
						} else {
							mp = path + ".99"
						}
					}
				case 2:
					if node.K == "obj" {
						mp = path + ".no_such_member"
					}
				case 3:
					if !yamlDoc {
						// the empty path, an existing path with a blank in front of or behind it (a list split at ", "):
						// paths are taken as they are given - these address nothing
						mp = rapid.SampledFrom([]string{"", " " + path, path + " "}).Draw(t, "odd")
					}
				}
			}
			m.Spec = MatcherSpec{Kind: which, Paths: []string{mp}, TypeName: "string", Return: json.RawMessage(`"r"`)}
			m.Failing = true
			if !manyFail && rapid.Bool().Draw(t, "tolerant") {
				m.Spec.ErrMissing = vhBoolp(false)
				m.Failing, m.Ignored = false, true
			} else if rapid.Bool().Draw(t, "explicit") {
				m.Spec.ErrMissing = vhBoolp(true)
			}
			if m.Spec.ErrMissing != nil {
				m.Spec.Stmt = rapid.Bool().Draw(t, "stmtform")
			}
			if m.Ignored && m.Spec.Paths[0] == "" {
				// (what the empty path addresses under ErrOnMissingPath(false) is not a missing path for every matcher - the
				// document root for Type, an sjson error for Any/Custom: only the strict form is asserted)
				m.Spec.Paths[0] = missing(i)
			}
		case kind < 4: // wrong type (an existing null is not a string either, in JSON and in YAML; a YAML integer is not a string)
			m.Spec = MatcherSpec{Kind: "type", Paths: []string{path}, TypeName: wrongType(node, yamlDoc)}
			if rapid.Bool().Draw(t, "tolerantflag") {
				m.Spec.ErrMissing = vhBoolp(false) // irrelevant: the path exists
			}
			m.Failing = true
			m.Comps = comps
			used = append(used, comps)
		case kind == 4 && (node.K == "obj" || node.K == "arr") && len(node.Kids) > 0 && !yamlDoc: // one Any listing a path and then a descendant of it
			child := path + ".0"
			if node.K == "obj" {
				if node.Keys[0] == "" || escapeGJSON(node.Keys[0]) != node.Keys[0] {
					child = ""
				} else {
					child = path + "." + node.Keys[0]
				}
			}
			if child == "" {
				m.Spec = MatcherSpec{Kind: "custom", Paths: []string{path}, ReturnErr: "custom callback says no", ReturnInput: rapid.Bool().Draw(t, "returninput")}
			} else {
				m.Spec = MatcherSpec{Kind: "any", Paths: []string{path, child}}
				m.FailPath = child // after the parent was replaced by the placeholder the descendant does not exist any more
			}
			m.Failing = true
			m.Comps = comps
			used = append(used, comps)
		case kind == 10 && (node.K == "obj" || node.K == "arr") && len(node.Kids) > 0 && (node.K == "arr" || (node.Keys[0] != "" && escapeGJSON(node.Keys[0]) == node.Keys[0])):
			// two matchers: a satisfiable one replaces a container, a later one addresses a descendant of it, which does
			// not exist any more once the first has taken effect (matchers take effect left to right)
			child := path + ".0"
			switch {
			case node.K == "obj":
				child = path + "." + node.Keys[0]
			case yamlDoc:
				child = path + "[0]"
			}
			first := c17Matcher{Spec: MatcherSpec{Kind: "any", Paths: []string{path}}, Comps: comps, Name: "Any"}
			if rapid.Bool().Draw(t, "firstcustom") {
				first = c17Matcher{Spec: MatcherSpec{Kind: "custom", Paths: []string{path}, Return: json.RawMessage(`"ok"`)}, Comps: comps, Name: "Custom"}
			}
			c.Matchers = append(c.Matchers, first)
			m.Spec = MatcherSpec{Kind: rapid.SampledFrom([]string{"any", "custom"}).Draw(t, "secondkind"), Paths: []string{child}, Return: json.RawMessage(`"r"`)}
			m.Failing = true
			m.DependsOnEarlier = true
			m.Comps = comps
			used = append(used, comps)
		case kind == 11 && (node.K == "obj" || node.K == "arr" || node.K == "bool" || (node.K == "num" && !yamlDoc)):
			// the same Type matcher twice: the second one finds the placeholder string the first one left
			first := c17Matcher{Spec: MatcherSpec{Kind: "type", Paths: []string{path}, TypeName: typeMatcherName(node)}, Comps: comps, Name: "Type"}
			c.Matchers = append(c.Matchers, first)
			m.Spec = first.Spec
			m.Failing = true
			m.DependsOnEarlier = true
			m.Comps = comps
			used = append(used, comps)
		case kind == 9 && (node.K == "obj" || node.K == "arr" || node.K == "num" || node.K == "bool") && !(yamlDoc && node.K == "num"):
			// a matcher lists a path that does not exist FIRST and this existing path second: it fails as a whole, and what it
			// would have done to the second path never happens - the next matcher (satisfiable on the document) sees the value
			first := c17Matcher{Spec: MatcherSpec{Kind: rapid.SampledFrom([]string{"any", "type"}).Draw(t, "firstfails"), Paths: []string{missing(i), path}, TypeName: typeMatcherName(node)}, Failing: true}
			first.Name = map[string]string{"any": "Any", "type": "Type"}[first.Spec.Kind]
			c.Matchers = append(c.Matchers, first)
			m.Spec = MatcherSpec{Kind: "type", Paths: []string{path}, TypeName: typeMatcherName(node)}
			m.Comps = comps
			m.AfterFailedSibling = true
			used = append(used, comps)
		case kind == 8 && ok && node.K != "null":
			// ONE Type matcher listing a path of the wrong type first and a path that does not exist after it: both are named
			m.Spec = MatcherSpec{Kind: "type", Paths: []string{path, missing(i)}, TypeName: wrongType(node, yamlDoc)}
			m.Failing = true
			m.AlsoNamed = []string{missing(i)}
			m.Comps = comps
			used = append(used, comps)
		case kind < 6: // custom error
			m.Spec = MatcherSpec{Kind: "custom", Paths: []string{path}, ReturnErr: "custom callback says no", ReturnInput: rapid.Bool().Draw(t, "returninput")}
			m.Failing = true
			m.Comps = comps
			used = append(used, comps)
		default: // satisfiable
			switch rapid.IntRange(0, 2).Draw(t, "sat") {
			case 0:
				m.Spec = MatcherSpec{Kind: "any", Paths: []string{path}}
			case 1:
				m.Spec = MatcherSpec{Kind: "custom", Paths: []string{path}, Return: json.RawMessage(`"ok"`)}
			default:
				if node.K != "null" && !(yamlDoc && node.K == "num") {
					m.Spec = MatcherSpec{Kind: "type", Paths: []string{path}, TypeName: typeMatcherName(node)}
				} else {
					m.Spec = MatcherSpec{Kind: "any", Paths: []string{path}}
				}
			}
			m.Comps = comps
			used = append(used, comps)
		}
		m.Name = map[string]string{"any": "Any", "type": "Type", "custom": "Custom"}[m.Spec.Kind]
		if (m.Spec.ErrMissing == nil || *m.Spec.ErrMissing) && rapid.IntRange(0, 4).Draw(t, "relaxedbefore") == 0 {
			m.Spec.Relaxed = true
		}
		c.Matchers = append(c.Matchers, m)
	}
	if existingSame {
		// (YAML that goes through matchers is re-serialised: only when a matcher fails is the outcome independent of that)
		failing := false
		for _, m := range c.Matchers {
			failing = failing || m.Failing
		}
		c.ExistingSame = failing || !yamlDoc
	}
	return c
}

func checkC17(c c17Case) error {
	for _, m := range c.Matchers {
		if m.Ignored && len(m.Spec.Paths) > 0 && m.Spec.Paths[0] == "" {
			return nil // the empty path under ErrOnMissingPath(false): not asserted (see genC17)
		}
	}
	root := scratchDir()
	defer os.RemoveAll(root)
	spec := CfgSpec{Dir: "snaps", Filename: "f"}
	if c.Kind == "sjson" {
		spec.Filename = ""
	}
	if c.ModeKind != "update_false" && len(c.Test)%2 == 0 {
		spec.Filename, spec.PkgLevel = "", true // package-level entry points
	}
	doc := renderYAML(c.Tree) + c.Suffix
	if c.Empty != nil {
		doc = *c.Empty
	}
	if c.Kind != "yaml" {
		doc = c.Tree.Compact()
	}
	form := c.Form
	if c.Kind != "yaml" && c.Tree.K == "str" {
		form = "string"
	}
	var specs []MatcherSpec
	anyFailing := false
	for _, m := range c.Matchers {
		specs = append(specs, m.Spec)
		if m.Failing {
			anyFailing = true
		}
	}
	filler := func(i int) Call {
		if c.Kind == "sjson" {
			return Call{API: "sjson", Doc: BS(fmt.Sprintf(`{"filler":%d}`, i)), Form: "string"}
		}
		return Call{API: "snap", Vals: []Val{strVal(fmt.Sprintf("filler %d", i))}}
	}
	slotPath := func(k int) (string, string) {
		if c.Kind == "sjson" {
			return spec.standalonePath(c.Test, k, true), ""
		}
		return spec.multiPath(), entryID(c.Test, k)
	}
	k := c.Before + 1 // the slot of the call under test
	// preparation: update_existing / update_false / ci need an existing, different entry at slot k (ci: sometimes)
	if c.ModeKind != "create" {
		newProcess(Mode{})
		ft := newFakeT(c.Test)
		cfg := spec.build(root)
		for i := 1; i <= c.Before; i++ {
			filler(i).invoke(cfg, ft)
		}
		if c.ExistingSame {
			Call{API: c.Kind, Doc: BS(doc), Form: form}.invoke(cfg, ft) // slot k holds the document as it is
		} else if !(c.NoExisting && c.ModeKind != "update_existing") {
			filler(1000).invoke(cfg, ft) // slot k holds something else
		}
		ft.finish()
	}
	mode := Mode{}
	s2 := spec
	switch c.ModeKind {
	case "update_existing":
		mode = Mode{Update: "true"}
	case "update_false":
		s2.Update = vhBoolp(false)
	case "ci":
		mode = Mode{CI: true}
	}
	newProcess(mode)
	cfg := s2.build(root)
	ft := newFakeT(c.Test)
	for i := 1; i <= c.Before; i++ {
		filler(i).invoke(cfg, ft)
	}
	ageDir(root)
	before := snapDir(root)
	r := Call{API: c.Kind, Doc: BS(doc), Form: form, Matchers: specs}.invoke(cfg, ft)
	after := snapDir(root)
	out, err := outcomeOf(r)
	if err != nil {
		return err
	}
	if !r.InputOK {
		return fmt.Errorf("the caller's input was modified")
	}
	if anyFailing {
		if out != oFailed {
			return fmt.Errorf("a matcher fails but the call ended as %q (mode %s); logs=%q", out, c.ModeKind, vhClipAll(r.Logs))
		}
		for _, m := range c.Matchers {
			if !m.Failing {
				continue
			}
			fp := m.Spec.Paths[0]
			if m.FailPath != "" {
				fp = m.FailPath
			}
			want := fmt.Sprintf(`match.%s("%s")`, m.Name, fp)
			if !strings.Contains(r.Errors[0], want) {
				return fmt.Errorf("the failure does not name %s; error text %q", want, vhClip(r.Errors[0]))
			}
			for _, ap := range m.AlsoNamed {
				if w2 := fmt.Sprintf(`match.%s("%s")`, m.Name, ap); !strings.Contains(r.Errors[0], w2) {
					return fmt.Errorf("the failure does not name %s (a later path of a matcher whose earlier path failed as well); error text %q", w2, vhClip(r.Errors[0]))
				}
			}
		}
		// ... and only those: a matcher that is satisfiable on the document (as the matchers before it left it) did not fail
		for i, m := range c.Matchers {
			if m.Failing || m.Ignored || len(m.Spec.Paths) != 1 {
				continue
			}
			named := fmt.Sprintf(`match.%s("%s")`, m.Name, m.Spec.Paths[0])
			dup := false
			for j, o := range c.Matchers {
				if j != i && o.Failing && o.Name == m.Name && (o.Spec.Paths[0] == m.Spec.Paths[0] || o.FailPath == m.Spec.Paths[0]) {
					dup = true // (the same Type twice: the text names the failing twin)
				}
			}
			if !dup && strings.Contains(r.Errors[0], named) {
				return fmt.Errorf("the failure names %s, which is satisfiable on this document; error text %q", named, vhClip(r.Errors[0]))
			}
		}
		if d := diffDirs(before, after, true); d != "" {
			return fmt.Errorf("a call with failing matchers wrote (mode %s): %s", c.ModeKind, d)
		}
	} else {
		// only tolerated missing paths: the comparison proceeds normally
		want := map[string]string{"create": oAdded, "update_existing": oUpdated, "update_false": oFailed, "ci": oFailed}[c.ModeKind]
		if c.ExistingSame && c.ModeKind != "create" {
			untouched := true
			for _, m := range c.Matchers {
				untouched = untouched && m.Ignored
			}
			if untouched {
				want = oPassed // the slot holds exactly this document
			}
		}
		if out != want {
			return fmt.Errorf("no matcher fails (missing paths are tolerated) in mode %s: outcome %q, want %q; errors=%q", c.ModeKind, out, want, vhClipAll(r.Errors))
		}
		if out == oFailed {
			for _, m := range c.Matchers {
				if m.Ignored && strings.Contains(r.Errors[0], fmt.Sprintf(`("%s")`, m.Spec.Paths[0])) {
					return fmt.Errorf("a missing path under ErrOnMissingPath(false) is reported: %q", vhClip(r.Errors[0]))
				}
			}
		}
	}
	// later calls keep their slots
	for i := 1; i <= c.After; i++ {
		slot := k + i
		file, id := slotPath(slot)
		pre := snapDir(root)
		rr := filler(2000+i).invoke(cfg, ft)
		post := snapDir(root)
		o2, err := outcomeOf(rr)
		if err != nil {
			return err
		}
		if c.ModeKind == "ci" || c.ModeKind == "update_false" {
			if o2 != oFailed {
				return fmt.Errorf("call %d after the failing one in mode %s: outcome %q", i, c.ModeKind, o2)
			}
			continue
		}
		if o2 != oAdded {
			return fmt.Errorf("call %d after the call under test must create slot %d (the failing call consumes its ordinal), outcome %q errors=%q", i, slot, o2, vhClipAll(rr.Errors))
		}
		if id == "" {
			if _, ok := post[file]; !ok {
				return fmt.Errorf("call %d after the call under test should have created %q; created: %s", i, file, diffDirs(pre, post, false))
			}
		} else {
			es, _ := refParse(post[file].Data)
			if findEntry(es, id) < 0 {
				return fmt.Errorf("call %d after the call under test should have created entry %q; file has %s", i, id, describeEntries(es))
			}
		}
	}
	ft.finish()
	return nil
}

func classifyC17(c c17Case) ([]string, bool) {
	cls := []string{"kind_" + c.Kind, "mode_" + c.ModeKind}
	failing, sat, ignored := 0, 0, 0
	for _, m := range c.Matchers {
		switch {
		case m.Failing:
			failing++
			cls = append(cls, "failing_"+m.Spec.Kind)
		case m.Ignored:
			ignored++
			cls = append(cls, "tolerated_missing_"+m.Spec.Kind)
		default:
			sat++
			if m.AfterFailedSibling {
				cls = append(cls, "satisfiable_matcher_on_a_path_that_a_failed_matcher_lists_second")
			}
		}
	}
	nt := (failing >= 1 && sat >= 1) || c.ModeKind == "update_existing" || ignored > 0
	if failing >= 2 {
		cls = append(cls, "two_or_more_failing")
	}
	if failing > 10 {
		cls = append(cls, "more_than_ten_failing")
	}
	if failing == 0 {
		cls = append(cls, "no_failing_matcher")
	}
	indep := false
	for _, m := range c.Matchers {
		if m.Failing && !m.DependsOnEarlier {
			indep = true
		}
		if m.DependsOnEarlier {
			cls = append(cls, "fails_because_of_earlier_matcher")
			if indep {
				cls = append(cls, "fails_because_of_earlier_matcher_after_independent_failure")
			}
		}
	}
	return vhUniq(cls), nt
}

func TestC17_MatcherFailures(t *testing.T) {
	prop[c17Case]{property: "C17", gen: genC17, check: checkC17, classify: classifyC17}.run(t)
}
