//go:build verif

// C20 Every call has exactly one outcome and the summary adds up.
package snaps

import (
	"fmt"
	"os"
	"path/filepath"
	"sort"
	"strings"
	"sync"
	"testing"

	"pgregory.net/rapid"
)

type c20Case struct {
	Hist histCase `json:"history"`
	Sort bool     `json:"sort"`
}

func genC20(t *rapid.T) c20Case {
	col := getCollector("C20", "TestC20_Sequential")
	h := genHistory(t, col, histOpts{tests: 4, maxProcs: 3, interleave: true, failing: true, updOptions: true, ci: true, uniqueExec: true, skips: true, blocked: true})
	return c20Case{Hist: h, Sort: rapid.Bool().Draw(t, "sort")}
}

func checkSummaryTotals(sum summaryInfo, tally map[string]int, skips int) error {
	for _, x := range []struct {
		name string
		got  int
		want int
	}{{"passed", sum.Passed, tally[oPassed]}, {"failed", sum.Failed, tally[oFailed]}, {"added", sum.Added, tally[oAdded]}, {"updated", sum.Updated, tally[oUpdated]}, {"skipped", sum.Skipped, skips}} {
		if x.got != x.want {
			return fmt.Errorf("summary shows %d %s, the process had %d (all tallies: %v, skips %d); summary %q", x.got, x.name, x.want, tally, skips, vhClip(sum.Raw))
		}
	}
	return nil
}

func checkC20(c c20Case) error {
	h := c.Hist
	tally := map[string]int{}
	skips := 0
	live := map[int]map[string]bool{}
	var skippedNames []string
	reset := func() {
		tally = map[string]int{}
		skips = 0
		live = map[int]map[string]bool{}
		skippedNames = nil
	}
	hooks := histHooks{
		afterCall: func(pi int, test string, ci int, id string, ec ExecCall, want, got string, r callResult) {
			tally[got]++
			if ci >= 0 {
				if live[ci] == nil {
					live[ci] = map[string]bool{}
				}
				live[ci][id] = true
			}
		},
		afterSkip: func(pi int, test string, logs []string) {
			skips++
			skippedNames = append(skippedNames, test)
		},
		afterProc: func(pi int, p Proc, root string) error {
			defer reset()
			deletes := !p.Mode.CI && (p.Mode.Update == "true" || p.Mode.Update == "clean")
			protected := func(id string) bool {
				name := id[:strings.LastIndex(id, " - ")]
				for _, s := range skippedNames {
					if name == s || strings.HasPrefix(name, s+"/") {
						return true
					}
				}
				return false
			}
			// model of the stale set
			wantIDs, mayIDs := map[string]int{}, map[string]int{}
			wantFiles := map[string]bool{}
			anyAddressed := false
			for ci := range h.Cfgs {
				if len(live[ci]) > 0 {
					anyAddressed = true
				}
			}
			for ci, cfg := range h.Cfgs {
				p := filepath.Join(root, cfg.multiPath())
				data := vhReadFile(p)
				if len(live[ci]) == 0 {
					if _, err := os.Stat(p); err == nil && anyAddressed {
						wantFiles[p] = true
					}
					continue
				}
				es, err := refParse(data)
				if err != nil {
					return fmt.Errorf("process %d: file %s not well formed before Clean: %v", pi, cfg.multiPath(), err)
				}
				for _, e := range es {
					id := string(e.ID)
					switch {
					case live[ci][id]:
					case protected(id):
						mayIDs[id]++
					default:
						wantIDs[id]++
						mayIDs[id]++
					}
				}
			}
			before := snapDir(root)
			var opts []CleanOpts
			if c.Sort {
				opts = append(opts, CleanOpts{Sort: true})
			}
			out := runClean("", 1, opts...)
			after := snapDir(root)
			sum, err := parseSummary(out)
			if err != nil {
				return fmt.Errorf("process %d: %v", pi, err)
			}
			total := 0
			for _, n := range tally {
				total += n
			}
			if !sum.Present {
				if total+skips+len(wantIDs)+len(wantFiles) > 0 {
					return fmt.Errorf("process %d: no summary printed although the process had outcomes %v, %d skips, stale %v %v", pi, tally, skips, wantIDs, wantFiles)
				}
				return nil
			}
			if err := checkSummaryTotals(sum, tally, skips); err != nil {
				return fmt.Errorf("process %d (mode %+v): %v", pi, p.Mode, err)
			}
			gotIDs := map[string]int{}
			for _, id := range sum.Tests {
				gotIDs[id]++
			}
			for id, n := range wantIDs {
				if gotIDs[id] < n {
					return fmt.Errorf("process %d: stale entry %q missing from the summary's obsolete tests %v", pi, id, sum.Tests)
				}
			}
			for id, n := range gotIDs {
				if n > mayIDs[id] {
					return fmt.Errorf("process %d: summary lists %q as obsolete but the model has no such stale entry (live ids %v)", pi, id, live)
				}
			}
			gotFiles := map[string]bool{}
			for _, f := range sum.Files {
				gotFiles[f] = true
				if !wantFiles[f] {
					return fmt.Errorf("process %d: summary lists file %q as obsolete, model says it is not", pi, f)
				}
			}
			for f := range wantFiles {
				if !gotFiles[f] {
					return fmt.Errorf("process %d: unaddressed file %q missing from the summary's obsolete files %v", pi, f, sum.Files)
				}
			}
			// listed == what Clean actually removed (clean mode) / nothing removed (otherwise)
			removedIDs := map[string]int{}
			for ci, cfg := range h.Cfgs {
				if len(live[ci]) == 0 {
					continue
				}
				rel := cfg.multiPath()
				pre, _ := refParse(before[rel].Data)
				post, perr := refParse(after[rel].Data)
				if perr != nil {
					return fmt.Errorf("process %d: file %s not well formed after Clean: %v", pi, rel, perr)
				}
				cnt := map[string]int{}
				for _, e := range pre {
					cnt[string(e.ID)]++
				}
				for _, e := range post {
					cnt[string(e.ID)]--
				}
				for id, n := range cnt {
					if n != 0 {
						removedIDs[id] += n
					}
				}
			}
			if deletes {
				for id, n := range gotIDs {
					if removedIDs[id] != n {
						return fmt.Errorf("process %d (clean mode): summary lists %q %d time(s) as removed, Clean removed %d", pi, id, n, removedIDs[id])
					}
				}
				for id, n := range removedIDs {
					if gotIDs[id] != n {
						return fmt.Errorf("process %d (clean mode): Clean removed entry %q (%d) but the summary lists it %d time(s)", pi, id, n, gotIDs[id])
					}
				}
				for f := range gotFiles {
					if _, still := after[vhRelTo(root, f)]; still {
						return fmt.Errorf("process %d (clean mode): file %q listed as removed but still exists", pi, f)
					}
				}
			} else if len(removedIDs) > 0 {
				return fmt.Errorf("process %d (mode %+v): Clean removed entries %v outside clean mode", pi, p.Mode, removedIDs)
			}
			for rel := range before {
				if _, ok := after[rel]; !ok && !gotFiles[filepath.Join(root, rel)] {
					return fmt.Errorf("process %d: %q disappeared during Clean without being listed", pi, rel)
				}
			}
			return nil
		},
	}
	return runHistory(h, hooks)
}

func classifyC20(c c20Case) ([]string, bool) {
	cls, _ := classifyHistory(c.Hist)
	kinds := map[string]bool{}
	for _, p := range c.Hist.Procs {
		for _, e := range p.Execs {
			for _, ec := range e.Calls {
				switch {
				case ec.Skip != "":
					kinds["skip_call"] = true
				case ec.Fail != "":
					kinds["fail_"+ec.Fail] = true
				case ec.Call.Cfg >= len(c.Hist.Cfgs):
					kinds["fail_blocked_dir"] = true
				}
			}
		}
		if p.Mode.CI {
			kinds["ci"] = true
		}
		if p.Mode.Update == "true" || p.Mode.Update == "clean" {
			kinds["clean_mode"] = true
		}
	}
	for k := range kinds {
		cls = append(cls, k)
	}
	if c.Sort {
		cls = append(cls, "sort")
	}
	sort.Strings(cls)
	return cls, len(kinds) >= 2 || len(c.Hist.Procs) >= 2
}

func TestC20_Sequential(t *testing.T) {
	prop[c20Case]{property: "C20", gen: genC20, check: checkC20, classify: classifyC20}.run(t)
}

// ---- concurrent variant ----------------------------------------------------------------------------------

type c20ParTest struct {
	Name  string     `json:"name"`
	Calls []ExecCall `json:"calls"` // Fail / Skip / plain; plain calls carry the class they are built for in Want
	Want  []string   `json:"want"`  // per call: predicted outcome ("" for skip)
	Pre   []bool     `json:"pre"`   // per call: slot recorded beforehand
	Diff  []bool     `json:"diff"`  // per call: ... with a different value (mismatch)
}

type c20ParCase struct {
	Cfg   CfgSpec      `json:"cfg"`
	Tests []c20ParTest `json:"tests"`
	Mode  Mode         `json:"mode"`
	Sort  bool         `json:"sort"`
}

func genC20Par(t *rapid.T) c20ParCase {
	col := getCollector("C20", "TestC20_Concurrent")
	n := rapid.IntRange(2, 8).Draw(t, "ngoroutines")
	names := genNamePool(t, n)
	c := c20ParCase{Cfg: CfgSpec{Dir: "snaps", Filename: "f"}, Sort: rapid.Bool().Draw(t, "sort")}
	switch rapid.IntRange(0, 3).Draw(t, "mode") {
	case 0:
		c.Mode = Mode{}
	case 1:
		c.Mode = Mode{Update: "true"}
	case 2:
		c.Mode = Mode{Update: "clean"}
	default:
		c.Mode = Mode{CI: true}
	}
	o := textOpts{maxLines: 2}
	for i := 0; i < n; i++ {
		pt := c20ParTest{Name: names[i]}
		m := rapid.IntRange(1, 6).Draw(t, "ncalls")
		for k := 0; k < m; k++ {
			api := rapid.SampledFrom([]string{"snap", "snap", "json", "yaml"}).Draw(t, "api")
			ec := ExecCall{Call: genSlotCall(t, ProgSlot{API: api}, o, col)}
			pre, differs := false, false
			want := ""
			switch rapid.IntRange(0, 5).Draw(t, "class") {
			case 0: // recorded with the same value
				pre = true
				want = oPassed
			case 1, 2: // not recorded
				want = predictOutcome(c.Mode, nil, false, false, "")
			case 3: // recorded with another value
				pre = true
				ec.Fail = ""
				want = predictOutcome(c.Mode, nil, true, false, "")
				differs = true
			default:
				if api != "snap" {
					ec.Call, ec.Fail = genFailingCall(t, ProgSlot{API: api})
					want = oFailed
				} else {
					want = predictOutcome(c.Mode, nil, false, false, "")
				}
			}
			pt.Calls = append(pt.Calls, ec)
			pt.Want = append(pt.Want, want)
			pt.Pre = append(pt.Pre, pre)
			pt.Diff = append(pt.Diff, differs)
		}
		if rapid.IntRange(0, 4).Draw(t, "skip") == 0 {
			pt.Calls = append(pt.Calls, ExecCall{Skip: rapid.SampledFrom([]string{"Skip", "Skipf", "SkipNow"}).Draw(t, "sk")})
			pt.Want = append(pt.Want, "")
			pt.Pre = append(pt.Pre, false)
			pt.Diff = append(pt.Diff, false)
		}
		c.Tests = append(c.Tests, pt)
	}
	return c
}

func checkC20Par(c c20ParCase) error {
	root := scratchDir()
	defer os.RemoveAll(root)
	// pre-existing file: the slots marked Pre hold the same value (passed) or a different one (mismatch)
	var es []Entry
	for _, pt := range c.Tests {
		for k, ec := range pt.Calls {
			if ec.Skip != "" || !pt.Pre[k] {
				continue
			}
			id := entryID(pt.Name, k+1)
			if !pt.Diff[k] {
				body, err := storedBodyVia(ec.Call)
				if err != nil {
					return err
				}
				es = append(es, Entry{ID: BS(id), Body: BS(body)})
			} else {
				es = append(es, Entry{ID: BS(id), Body: BS(fmt.Sprintf("some other value %d", k))})
			}
		}
	}
	es = append(es, Entry{ID: "TestStaleXyz - 1", Body: "stale"})
	p := filepath.Join(root, c.Cfg.multiPath())
	os.MkdirAll(filepath.Dir(p), 0o755)
	os.WriteFile(p, []byte(refRender(es)), 0o644)

	// the concurrent process
	newProcess(c.Mode)
	cfg := c.Cfg.build(root)
	type obs struct{ errs, logs []string }
	results := make([][]obs, len(c.Tests))
	var wg sync.WaitGroup
	start := make(chan struct{})
	for i, pt := range c.Tests {
		wg.Add(1)
		go func(i int, pt c20ParTest) {
			defer wg.Done()
			<-start
			ft := newFakeT(pt.Name)
			for _, ec := range pt.Calls {
				if ec.Skip != "" {
					switch ec.Skip {
					case "Skipf":
						callSkip(func() { Skipf(ft, "s") })
					case "SkipNow":
						callSkip(func() { SkipNow(ft) })
					default:
						callSkip(func() { Skip(ft) })
					}
					e, l := ft.drain()
					results[i] = append(results[i], obs{e, l})
					break
				}
				call := ec.Call
				rt := call.invoke(cfg, ft)
				results[i] = append(results[i], obs{rt.Errors, rt.Logs})
			}
			ft.finish()
		}(i, pt)
	}
	close(start)
	wg.Wait()

	tally := map[string]int{}
	skips := 0
	for i, pt := range c.Tests {
		for k, ec := range pt.Calls {
			if k >= len(results[i]) {
				return fmt.Errorf("%s call %d was not executed", pt.Name, k+1)
			}
			o := results[i][k]
			if ec.Skip != "" {
				skips++
				if len(o.errs) != 0 || len(o.logs) != 1 || !strings.Contains(o.logs[0], "Snapshot skipped") {
					return fmt.Errorf("%s: snaps.%s signalled errors=%q logs=%q", pt.Name, ec.Skip, vhClipAll(o.errs), vhClipAll(o.logs))
				}
				continue
			}
			var got string
			switch {
			case len(o.errs) == 0 && len(o.logs) == 0:
				got = oPassed
			case len(o.errs) == 0 && len(o.logs) == 1 && strings.Contains(o.logs[0], "Snapshot added"):
				got = oAdded
			case len(o.errs) == 0 && len(o.logs) == 1 && strings.Contains(o.logs[0], "Snapshot updated"):
				got = oUpdated
			case len(o.errs) == 1 && len(o.logs) == 0:
				got = oFailed
			default:
				return fmt.Errorf("%s call %d: not exactly one outcome: errors=%q logs=%q", pt.Name, k+1, vhClipAll(o.errs), vhClipAll(o.logs))
			}
			if got != pt.Want[k] {
				return fmt.Errorf("%s call %d (%s, mode %+v): outcome %s, a serial execution gives %s; errors=%q", pt.Name, k+1, ec.Call.API, c.Mode, got, pt.Want[k], vhClipAll(o.errs))
			}
			tally[got]++
		}
	}
	var opts []CleanOpts
	if c.Sort {
		opts = append(opts, CleanOpts{Sort: true})
	}
	sum, err := parseSummary(runClean("", 1, opts...))
	if err != nil {
		return err
	}
	if err := checkSummaryTotals(sum, tally, skips); err != nil {
		return fmt.Errorf("after %d concurrent tests: %v", len(c.Tests), err)
	}
	if len(sum.Tests) != 1 || sum.Tests[0] != "TestStaleXyz - 1" {
		return fmt.Errorf("summary's obsolete tests are %v, want exactly [TestStaleXyz - 1]", sum.Tests)
	}
	return nil
}

// storedBodyVia: the body the code stores for a call, obtained by recording it alone in a throw-away directory.
func storedBodyVia(c Call) (string, error) {
	tmp := scratchDir()
	defer os.RemoveAll(tmp)
	newProcess(Mode{})
	spec := CfgSpec{Dir: "d", Filename: "tmp"}
	ft := newFakeT("TestTmp")
	r := c.invoke(spec.build(tmp), ft)
	ft.finish()
	if out, err := outcomeOf(r); err != nil || out != oAdded {
		return "", fmt.Errorf("harness: recording a value alone: %q %v %q", out, err, vhClipAll(r.Errors))
	}
	es, err := refParse(vhReadFile(filepath.Join(tmp, spec.multiPath())))
	if err != nil || len(es) != 1 {
		return "", fmt.Errorf("harness: recording a value alone produced %d entries (%v)", len(es), err)
	}
	return string(es[0].Body), nil
}

func classifyC20Par(c c20ParCase) ([]string, bool) {
	kinds := map[string]bool{}
	for _, pt := range c.Tests {
		for k, ec := range pt.Calls {
			if ec.Skip != "" {
				kinds["skip_call"] = true
			} else {
				kinds["want_"+pt.Want[k]] = true
			}
		}
	}
	var cls []string
	for k := range kinds {
		cls = append(cls, k)
	}
	sort.Strings(cls)
	cls = append(cls, fmt.Sprintf("goroutines_%d", len(c.Tests)))
	return cls, len(kinds) >= 3
}

func TestC20_Concurrent(t *testing.T) {
	prop[c20ParCase]{property: "C20", gen: genC20Par, check: checkC20Par, classify: classifyC20Par, weight: 0.5}.run(t)
}
