// Package sync (import path .../internal/vsched/vsync): drop-in for the parts of "sync" package snaps uses.
// Mutex and RWMutex are cooperative while a vsched session is active and real otherwise.
package sync

import (
	rs "sync"

	"github.com/gkampitakis/go-snaps/internal/vsched"
)

type (
	WaitGroup = rs.WaitGroup
	Once      = rs.Once
	Map       = rs.Map
	Pool      = rs.Pool
	Locker    = rs.Locker
	Cond      = rs.Cond
)

type Mutex struct {
	real rs.Mutex
	held bool
}

func (m *Mutex) Lock() {
	if !vsched.Active() {
		m.real.Lock()
		return
	}
	vsched.Block("Mutex.Lock", func() bool { return !m.held })
	m.held = true
}

func (m *Mutex) Unlock() {
	if !vsched.Active() {
		m.real.Unlock()
		return
	}
	if !m.held {
		panic("vsync: unlock of unlocked Mutex")
	}
	m.held = false
}

func (m *Mutex) TryLock() bool {
	if !vsched.Active() {
		return m.real.TryLock()
	}
	if m.held {
		return false
	}
	m.held = true
	return true
}

type RWMutex struct {
	real    rs.RWMutex
	writer  bool
	readers int
	// pending: writers that called Lock and wait for the readers to leave. As in sync.RWMutex, a pending writer keeps NEW
	// readers out ("a blocked Lock call excludes new readers from acquiring the lock"): this is what turns recursive read
	// locking into a deadlock, so the model must have it.
	pending int
}

func (m *RWMutex) Lock() {
	if !vsched.Active() {
		m.real.Lock()
		return
	}
	m.pending++
	vsched.Block("RWMutex.Lock", func() bool { return !m.writer && m.readers == 0 })
	m.pending--
	m.writer = true
}

func (m *RWMutex) Unlock() {
	if !vsched.Active() {
		m.real.Unlock()
		return
	}
	if !m.writer {
		panic("vsync: unlock of unlocked RWMutex")
	}
	m.writer = false
}

func (m *RWMutex) RLock() {
	if !vsched.Active() {
		m.real.RLock()
		return
	}
	vsched.Block("RWMutex.RLock", func() bool { return !m.writer && m.pending == 0 })
	m.readers++
}

func (m *RWMutex) RUnlock() {
	if !vsched.Active() {
		m.real.RUnlock()
		return
	}
	if m.readers <= 0 {
		panic("vsync: RUnlock of unlocked RWMutex")
	}
	m.readers--
}
