module rewriter

go 1.22
