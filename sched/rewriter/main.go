// rewriter: prepares package snaps for the controlled scheduler (DESIGN §5.2).
//
//	rewriter <snaps source dir> <out dir>
//
// For every non-test .go file it inserts `vsched.Yield("<file>:<line>"); ` by TEXT OFFSET before every
// statement that contains a call (function literals included), swaps the import "sync" for the cooperative
// shim, and adds the vsched import. Line numbers are preserved. Prints the overlay mapping as JSON.
package main

import (
	"encoding/json"
	"fmt"
	"go/ast"
	"go/parser"
	"go/token"
	"os"
	"path/filepath"
	"sort"
	"strconv"
	"strings"
)

const schedPath = "github.com/gkampitakis/go-snaps/internal/vsched"

type ins struct {
	off  int
	text string
}

var inserts []ins

func hasCall(n ast.Node) bool {
	found := false
	ast.Inspect(n, func(x ast.Node) bool {
		if _, ok := x.(*ast.FuncLit); ok {
			return false
		}
		if _, ok := x.(*ast.CallExpr); ok {
			found = true
		}
		return !found
	})
	return found
}

func rewriteList(fset *token.FileSet, list []ast.Stmt) {
	for _, s := range list {
		rewriteStmt(fset, s)
		switch s.(type) {
		case *ast.CaseClause, *ast.CommClause, *ast.LabeledStmt:
			continue
		}
		if hasCall(s) {
			p := fset.Position(s.Pos())
			inserts = append(inserts, ins{p.Offset, fmt.Sprintf("vsched.Yield(%q); ", fmt.Sprintf("%s:%d", filepath.Base(p.Filename), p.Line))})
		}
	}
}

func rewriteStmt(fset *token.FileSet, s ast.Stmt) {
	ast.Inspect(s, func(n ast.Node) bool {
		switch b := n.(type) {
		case *ast.BlockStmt:
			rewriteList(fset, b.List)
			return false
		case *ast.CaseClause:
			rewriteList(fset, b.Body)
			return false
		case *ast.CommClause:
			rewriteList(fset, b.Body)
			return false
		}
		return true
	})
}

func main() {
	if len(os.Args) > 1 && os.Args[1] == "-globals" {
		globalsMain(os.Args[2:])
		return
	}
	srcDir, outDir := os.Args[1], os.Args[2]
	overlay := map[string]string{}
	ents, err := os.ReadDir(srcDir)
	if err != nil {
		fmt.Fprintln(os.Stderr, err)
		os.Exit(1)
	}
	for _, e := range ents {
		if !strings.HasSuffix(e.Name(), ".go") || strings.HasSuffix(e.Name(), "_test.go") {
			continue
		}
		fset := token.NewFileSet()
		path := filepath.Join(srcDir, e.Name())
		f, err := parser.ParseFile(fset, path, nil, 0)
		if err != nil {
			fmt.Fprintln(os.Stderr, err)
			os.Exit(1)
		}
		inserts = nil
		for _, d := range f.Decls {
			if fd, ok := d.(*ast.FuncDecl); ok && fd.Body != nil {
				rewriteList(fset, fd.Body.List)
			}
		}
		nyield := len(inserts)
		raw, _ := os.ReadFile(path)
		for _, im := range f.Imports {
			if im.Path.Value == `"sync"` {
				o := fset.Position(im.Path.Pos()).Offset
				name := "sync "
				if im.Name != nil {
					name = ""
				}
				inserts = append(inserts, ins{o, name + strconv.Quote(schedPath+"/vsync") + " //"})
			}
		}
		alias := "vsched"
		if nyield == 0 {
			alias = "_"
		}
		pk := fset.Position(f.Name.End()).Offset
		inserts = append(inserts, ins{pk, "; import " + alias + " " + strconv.Quote(schedPath)})
		sort.SliceStable(inserts, func(i, j int) bool { return inserts[i].off > inserts[j].off })
		for _, in := range inserts {
			raw = append(raw[:in.off:in.off], append([]byte(in.text), raw[in.off:]...)...)
		}
		out := filepath.Join(outDir, e.Name())
		if err := os.WriteFile(out, raw, 0o644); err != nil {
			fmt.Fprintln(os.Stderr, err)
			os.Exit(1)
		}
		overlay[path] = out
	}
	b, _ := json.MarshalIndent(overlay, "", " ")
	fmt.Println(string(b))
}
