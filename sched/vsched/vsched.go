// Package vsched: a cooperative scheduler. Exactly one task goroutine runs at a time; control changes hands
// only at Yield points chosen by the schedule, when a task blocks on a cooperative lock, or when it ends.
package vsched

import "fmt"

type gor struct {
	id       int
	resume   chan struct{}
	finished bool
	waitOn   func() bool // nil = runnable
	steps    int         // yields executed by this task
}

// Preempt: when task G has executed its K-th yield, switch to the Choice-th other enabled task.
type Preempt struct {
	G      int `json:"g"`
	K      int `json:"k"`
	Choice int `json:"choice"`
}

type Session struct {
	gs      []*gor
	cur     int
	preempt map[[2]int]int
	order   []int // tie-break choices when the running task ends or blocks
	oi      int
	done    chan struct{}

	Trace      []string   // human readable history of context switches
	Sites      [][]string // per task: the yield sites it passed (dry runs use this to place preemptions)
	Dead       bool       // deadlock: tasks remain but none is enabled
	Effective  int        // preemptions that actually switched tasks
	record     bool
}

var active *Session

func Active() bool { return active != nil }

func (s *Session) enabled(except int) []int {
	var out []int
	for _, g := range s.gs {
		if g.id == except || g.finished {
			continue
		}
		if g.waitOn != nil && !g.waitOn() {
			continue
		}
		out = append(out, g.id)
	}
	return out
}

func (s *Session) nextChoice() int {
	if s.oi < len(s.order) {
		s.oi++
		return s.order[s.oi-1]
	}
	return 0
}

func (s *Session) switchTo(next int, self *gor, wait bool) {
	s.cur = next
	s.gs[next].resume <- struct{}{}
	if wait {
		<-self.resume
	}
}

// Yield is inserted before every statement of the code under test.
func Yield(site string) {
	s := active
	if s == nil {
		return
	}
	self := s.gs[s.cur]
	self.steps++
	if s.record {
		s.Sites[self.id] = append(s.Sites[self.id], site)
	}
	ch, ok := s.preempt[[2]int{self.id, self.steps}]
	if !ok {
		return
	}
	en := s.enabled(self.id)
	if len(en) == 0 {
		return
	}
	next := en[ch%len(en)]
	s.Effective++
	s.Trace = append(s.Trace, fmt.Sprintf("g%d preempted before %s (its yield #%d) -> g%d", self.id, site, self.steps, next))
	s.switchTo(next, self, true)
}

// Block is called by the cooperative locks when they cannot proceed.
func Block(what string, can func() bool) {
	s := active
	self := s.gs[s.cur]
	for !can() {
		self.waitOn = can
		en := s.enabled(self.id)
		if len(en) == 0 {
			s.Dead = true
			s.Trace = append(s.Trace, fmt.Sprintf("g%d blocks on %s and no task is enabled: DEADLOCK", self.id, what))
			close(s.done)
			select {} // park forever; the session is over
		}
		next := en[s.nextChoice()%len(en)]
		s.Trace = append(s.Trace, fmt.Sprintf("g%d blocks on %s -> g%d", self.id, what, next))
		s.switchTo(next, self, true)
		self.waitOn = nil
	}
}

// Run executes the tasks under the schedule and returns when all have finished (or on deadlock).
func Run(tasks []func(), preempt []Preempt, order []int, recordSites bool) *Session {
	s := &Session{preempt: map[[2]int]int{}, order: order, done: make(chan struct{}), record: recordSites}
	for _, p := range preempt {
		s.preempt[[2]int{p.G, p.K}] = p.Choice
	}
	s.Sites = make([][]string, len(tasks))
	for i := range tasks {
		s.gs = append(s.gs, &gor{id: i, resume: make(chan struct{})})
	}
	for i, task := range tasks {
		g, task := s.gs[i], task
		go func() {
			<-g.resume
			task()
			g.finished = true
			en := s.enabled(g.id)
			if len(en) == 0 {
				left := false
				for _, o := range s.gs {
					if !o.finished {
						left = true
					}
				}
				if left {
					s.Dead = true
					s.Trace = append(s.Trace, fmt.Sprintf("g%d ended, tasks remain but none is enabled: DEADLOCK", g.id))
				}
				close(s.done)
				return
			}
			next := en[s.nextChoice()%len(en)]
			s.switchTo(next, g, false)
		}()
	}
	active = s
	first := s.nextChoice() % len(tasks)
	s.cur = first
	s.gs[first].resume <- struct{}{}
	<-s.done
	active = nil
	return s
}
