//go:build verif && verifsched

// C06 (serialisability clause): generated concurrent scenarios x generated / enumerated schedules on the
// cooperative scheduler. Package snaps is compiled from sources rewritten with a yield before every statement.
package snaps

import (
	"bufio"
	"fmt"
	"os"
	"path/filepath"
	"sort"
	"strconv"
	"strings"
	"testing"

	"github.com/gkampitakis/go-snaps/internal/vsched"
	"pgregory.net/rapid"
)

type schedCall struct {
	Kind string `json:"kind"`          // create | match | mismatch | update
	API  string `json:"api,omitempty"` // "" (snap) | json | yaml
	Val  BS     `json:"value"`
	Old  BS     `json:"old,omitempty"`
}

func (c schedCall) call(text BS) Call {
	switch c.API {
	case "json":
		return Call{API: "json", Doc: text, Form: "string"}
	case "yaml":
		return Call{API: "yaml", Doc: text, Form: "string"}
	case "ssnap", "shared":
		return Call{API: "ssnap", Vals: []Val{strVal(string(text))}}
	}
	return Call{API: "snap", Vals: []Val{strVal(string(text))}}
}

var schedBodies = map[string]string{}

// schedBody: the body the code stores for the value (recorded alone, outside any scheduler session).
func schedBody(c schedCall, text BS) BS {
	if c.API == "" || c.API == "snap" {
		return BS(refEscape(string(text)))
	}
	key := c.API + "\x00" + string(text)
	if b, ok := schedBodies[key]; ok {
		return BS(b)
	}
	b, err := storedBodyVia(c.call(text))
	if err != nil {
		panic(err)
	}
	schedBodies[key] = b
	return BS(b)
}

type schedTest struct {
	Name  string      `json:"name"`
	Calls []schedCall `json:"calls"`
}

type abstractPreempt struct {
	G      int  `json:"g"`
	Pos    int  `json:"pos"`    // index into the task's list of (interesting) yield positions, modulo its length
	All    bool `json:"all"`    // choose among all yields instead of the interesting ones
	Choice int  `json:"choice"` // which other enabled task gets control
}

type schedCase struct {
	Foreign  []Entry           `json:"foreign_entries"`
	Tests    []schedTest       `json:"tests"`
	Shuffle  []int             `json:"initial_order"`
	Preempts []abstractPreempt `json:"preemptions"`
	Order    []int             `json:"tie_breaks"`
	// Exact, if set, replaces Preempts (used by the exhaustive enumeration and in replay files)
	Exact []vsched.Preempt `json:"exact,omitempty"`
	// FreshDir: nothing exists yet - the snapshot directory lies three missing levels deep (only for scenarios without
	// pre-existing entries or standalone files)
	FreshDir bool `json:"fresh_directory,omitempty"`
	// SharedPre: calls with API "shared" are standalone calls of DIFFERENT tests through one Config with the explicit
	// Filename "golden" - the tests share one ordinal sequence, so which call gets which file depends on the order. SharedPre
	// files golden_1..golden_<SharedPre> exist beforehand, all holding sharedSame (then every shared call passes sharedSame);
	// with SharedPre == 0 every shared call is a "create" with a value of its own.
	SharedPre int `json:"shared_filename_preexisting,omitempty"`
}

const sharedSame = "the same golden text"

func (c schedCase) hasShared() bool {
	for _, t := range c.Tests {
		for _, call := range t.Calls {
			if call.API == "shared" {
				return true
			}
		}
	}
	return c.SharedPre > 0
}

func (c schedCase) sharedSpec() CfgSpec {
	s := c.dirSpec()
	s.Filename = "golden"
	return s
}

// ordinals: for every call of the test its ordinal among the calls of its kind (multi-entry calls share the file's
// ordinal sequence, standalone calls have their own)
func (t schedTest) ordinals() []int {
	out := make([]int, len(t.Calls))
	m, s := 0, 0
	for i, c := range t.Calls {
		if c.API == "shared" {
			continue // the ordinal depends on the order of the calls of all tests: judged as a set (judgeShared)
		}
		if c.API == "ssnap" {
			s++
			out[i] = s
		} else {
			m++
			out[i] = m
		}
	}
	return out
}

func (c schedCase) dirSpec() CfgSpec {
	if c.FreshDir {
		return CfgSpec{Dir: "new/deep/er/snaps", Filename: "f"}
	}
	return CfgSpec{Dir: "snaps", Filename: "f"}
}

// standaloneFiles: relative path -> content, before (initial=true) or after the run
func (c schedCase) standaloneFiles(initial bool) map[string]string {
	out := map[string]string{}
	solo := c.dirSpec()
	solo.Filename = ""
	for _, t := range c.Tests {
		ord := t.ordinals()
		for i, call := range t.Calls {
			if call.API != "ssnap" {
				continue
			}
			p := solo.standalonePath(t.Name, ord[i], false)
			switch call.Kind {
			case "match":
				out[p] = string(call.Val)
			case "mismatch":
				out[p] = string(call.Old)
			case "update":
				if initial {
					out[p] = string(call.Old)
				} else {
					out[p] = string(call.Val)
				}
			case "create":
				if !initial {
					out[p] = string(call.Val)
				}
			}
		}
	}
	return out
}

// values larger than the usual buffer sizes (4096, 8192): an entry that a buffered writer would emit in several writes
var (
	schedBig1 = strings.Repeat("0123456789abcde\n", 300)                   // 4800 bytes, many lines
	schedBig2 = "head\n" + strings.Repeat("y", 9000) + "\ntail\n---\nend" // one line beyond 8192 and a terminator look-alike
)

var interestingWords = []string{".Flush(", ".Sync(", ".Close(", ".ReadFrom(", "io.Copy", "os.", ".Lock(", ".RLock(", ".Unlock(", ".RUnlock(", "Fprintf", ".Write", ".Truncate", ".Seek", ".Scan()", "getPrevSnapshot(", "addNewSnapshot(", "updateSnapshot(", "overwriteFile(", "upsertStandaloneSnapshot(", "getTestID(", "register("}

var srcLines = map[string][]string{}

func siteInteresting(site string) bool {
	i := strings.LastIndex(site, ":")
	file, ln := site[:i], site[i+1:]
	lines, ok := srcLines[file]
	if !ok {
		f, err := os.Open(filepath.Join(vhGetenv("VERIF_REPO", "/repo"), "snaps", file))
		if err == nil {
			sc := bufio.NewScanner(f)
			sc.Buffer(nil, 1<<20)
			for sc.Scan() {
				lines = append(lines, sc.Text())
			}
			f.Close()
		}
		srcLines[file] = lines
	}
	n, _ := strconv.Atoi(ln)
	if n < 1 || n > len(lines) {
		return false
	}
	for _, w := range interestingWords {
		if strings.Contains(lines[n-1], w) {
			return true
		}
	}
	return false
}

func (c schedCase) initialEntries() []Entry {
	es := append([]Entry{}, c.Foreign...)
	for _, t := range c.Tests {
		ord := t.ordinals()
		for k, call := range t.Calls {
			if call.API == "ssnap" || call.API == "shared" {
				continue
			}
			switch call.Kind {
			case "match":
				es = append(es, Entry{ID: BS(entryID(t.Name, ord[k])), Body: schedBody(call, call.Val)})
			case "mismatch", "update":
				es = append(es, Entry{ID: BS(entryID(t.Name, ord[k])), Body: schedBody(call, call.Old)})
			}
		}
	}
	out := make([]Entry, 0, len(es))
	used := map[int]bool{}
	for _, i := range c.Shuffle {
		if i < len(es) && !used[i] {
			used[i] = true
			out = append(out, es[i])
		}
	}
	for i := range es {
		if !used[i] {
			out = append(out, es[i])
		}
	}
	return out
}

type schedObs struct {
	outcomes [][]string
	final    string
	solo     map[string]string // every other file below the scratch root: relative path -> content
	sess     *vsched.Session
}

// runSched executes the scenario under an exact schedule in a fresh directory.
func runSched(c schedCase, pre []vsched.Preempt, record bool) (schedObs, error) {
	root := scratchDir()
	defer os.RemoveAll(root)
	spec := c.dirSpec()
	file := filepath.Join(root, spec.multiPath())
	if !c.FreshDir {
		os.MkdirAll(filepath.Dir(file), 0o755)
		os.WriteFile(file, []byte(refRender(c.initialEntries())), 0o644)
		for p, data := range c.standaloneFiles(true) {
			os.WriteFile(filepath.Join(root, p), []byte(data), 0o644)
		}
		for k := 1; k <= c.SharedPre; k++ {
			os.WriteFile(filepath.Join(root, c.sharedSpec().standalonePath("", k, false)), []byte(sharedSame), 0o644)
		}
	}
	newProcess(Mode{})
	upd, noUpd := spec, spec
	upd.Update, noUpd.Update = vhBoolp(true), vhBoolp(false)
	cfgDefault, cfgUpd, cfgNo := spec.build(root), upd.build(root), noUpd.build(root)
	soloOf := func(s CfgSpec) *Config { s.Filename = ""; return s.build(root) }
	soloDefault, soloUpd, soloNo := soloOf(spec), soloOf(upd), soloOf(noUpd)
	sharedCfg := c.sharedSpec().build(root)
	obs := schedObs{outcomes: make([][]string, len(c.Tests))}
	tasks := make([]func(), len(c.Tests))
	// shared-Filename scenarios: every test ends after the last call of the scenario (the end of ANY test resets the ordinal
	// sequence of the shared name - with test ends in between, which file a call addresses depends on the order by design)
	lateFinish := c.hasShared()
	var late []func()
	for i, t := range c.Tests {
		i, t := i, t
		tasks[i] = func() {
			ft := newFakeT(t.Name)
			if lateFinish {
				late = append(late, ft.finish)
			}
			for _, call := range t.Calls {
				cfg := cfgDefault
				switch call.Kind {
				case "update":
					cfg = cfgUpd
				case "mismatch":
					cfg = cfgNo
				}
				if call.API == "ssnap" {
					cfg = map[*Config]*Config{cfgDefault: soloDefault, cfgUpd: soloUpd, cfgNo: soloNo}[cfg]
				}
				switch call.API {
				case "shared":
					sharedCfg.MatchStandaloneSnapshot(ft, string(call.Val))
				case "ssnap":
					cfg.MatchStandaloneSnapshot(ft, string(call.Val))
				case "json":
					cfg.MatchJSON(ft, string(call.Val))
				case "yaml":
					cfg.MatchYAML(ft, string(call.Val))
				default:
					cfg.MatchSnapshot(ft, string(call.Val))
				}
				errs, logs := ft.drain()
				o := "?"
				switch {
				case len(errs) == 0 && len(logs) == 0:
					o = oPassed
				case len(errs) == 0 && len(logs) == 1 && strings.Contains(logs[0], "Snapshot added"):
					o = oAdded
				case len(errs) == 0 && len(logs) == 1 && strings.Contains(logs[0], "Snapshot updated"):
					o = oUpdated
				case len(errs) == 1 && len(logs) == 0:
					o = oFailed + ": " + vhClip(errs[0])
				default:
					o = fmt.Sprintf("several signals: errors=%q logs=%q", vhClipAll(errs), vhClipAll(logs))
				}
				obs.outcomes[i] = append(obs.outcomes[i], o)
			}
			if !lateFinish {
				ft.finish()
			}
		}
	}
	obs.sess = vsched.Run(tasks, pre, c.Order, record)
	for _, f := range late {
		f()
	}
	obs.final = vhReadFile(file)
	obs.solo = map[string]string{}
	for p, f := range snapDir(root) {
		if !f.IsDir && p != spec.multiPath() {
			obs.solo[p] = f.Data
		}
	}
	return obs, nil
}

func wantOutcome(kind string) string {
	return map[string]string{"create": oAdded, "match": oPassed, "mismatch": oFailed, "update": oUpdated}[kind]
}

func judgeSched(c schedCase, obs schedObs) error {
	trace := strings.Join(obs.sess.Trace, "; ")
	if obs.sess.Dead {
		return fmt.Errorf("deadlock; schedule: %s", trace)
	}
	for i, t := range c.Tests {
		if len(obs.outcomes[i]) != len(t.Calls) {
			return fmt.Errorf("%s executed %d of %d calls; schedule: %s", t.Name, len(obs.outcomes[i]), len(t.Calls), trace)
		}
		for k, call := range t.Calls {
			got := obs.outcomes[i][k]
			if call.API == "shared" {
				continue // judgeShared
			}
			if strings.HasPrefix(got, oFailed) {
				got = oFailed
			}
			if want := wantOutcome(call.Kind); got != want {
				return fmt.Errorf("%s call %d (%s): outcome %q, a serial execution gives %q; schedule: %s", t.Name, k+1, call.Kind, obs.outcomes[i][k], want, trace)
			}
		}
	}
	es, err := refParse(obs.final)
	if err != nil {
		return fmt.Errorf("final file is torn / not well formed: %v; content %q; schedule: %s", err, vhClip(obs.final), trace)
	}
	// expected: initial entries in their order (updated bodies where updated) + one entry per created slot
	want := c.initialEntries()
	created := map[string]string{}
	for _, t := range c.Tests {
		ord := t.ordinals()
		for k, call := range t.Calls {
			if call.API == "ssnap" || call.API == "shared" {
				continue
			}
			id := entryID(t.Name, ord[k])
			switch call.Kind {
			case "update":
				want[findEntry(want, id)].Body = schedBody(call, call.Val)
			case "create":
				created[id] = string(schedBody(call, call.Val))
			}
		}
	}
	// standalone files: the k-th standalone call of a test owns file k, whatever the other tests do meanwhile
	wantSolo := c.standaloneFiles(false)
	sharedFiles, err := judgeShared(c, obs, trace)
	if err != nil {
		return err
	}
	for p, data := range sharedFiles {
		wantSolo[p] = data
	}
	for p, data := range wantSolo {
		got, ok := obs.solo[p]
		if !ok {
			return fmt.Errorf("standalone file %q is missing after the run; files: %v; schedule: %s", p, vhKeysOfStrMap(obs.solo), trace)
		}
		if got != data {
			return fmt.Errorf("standalone file %q holds %q, a serial execution leaves %q; schedule: %s", p, vhClip(got), vhClip(data), trace)
		}
	}
	for p := range obs.solo {
		if _, ok := wantSolo[p]; !ok {
			return fmt.Errorf("unexpected file %q after the run (expected standalone files: %v); schedule: %s", p, vhKeysOfStrMap(wantSolo), trace)
		}
	}
	if len(es) < len(want) {
		return fmt.Errorf("entries were lost: final file has %s, expected at least %s; schedule: %s", describeEntries(es), describeEntries(want), trace)
	}
	for i := range want {
		if es[i] != want[i] {
			return fmt.Errorf("pre-existing entry %d is %q=%q, expected %q=%q (lost update, stale copy or reordering); final %s; schedule: %s", i, es[i].ID, vhClip(string(es[i].Body)), want[i].ID, vhClip(string(want[i].Body)), describeEntries(es), trace)
		}
	}
	seen := map[string]bool{}
	for _, e := range es[len(want):] {
		body, ok := created[string(e.ID)]
		if !ok || seen[string(e.ID)] {
			return fmt.Errorf("unexpected or duplicated entry %q in the final file %s; schedule: %s", e.ID, describeEntries(es), trace)
		}
		if string(e.Body) != body {
			return fmt.Errorf("created entry %q holds %q, want %q; schedule: %s", e.ID, vhClip(string(e.Body)), vhClip(body), trace)
		}
		seen[string(e.ID)] = true
	}
	for id := range created {
		if !seen[id] {
			return fmt.Errorf("created entry %q is missing from the final file (lost append): %s; schedule: %s", id, describeEntries(es), trace)
		}
	}
	return nil
}

// judgeShared: standalone calls of different tests through one explicit Filename share the ordinal sequence golden_1,
// golden_2, ... Whatever the interleaving, a serial execution (calls are the atoms; the calls of one test in their order)
// hands out every ordinal 1..N exactly once. Fresh (SharedPre == 0, values all different): every call reports "added", file k
// exists for every k <= N, every value sits in exactly one file, the values of one test in files of increasing ordinal.
// Pre-existing (every value and every file = sharedSame): exactly min(N, SharedPre) calls pass, the others report "added".
// Returns the files this accounts for.
func judgeShared(c schedCase, obs schedObs, trace string) (map[string]string, error) {
	files := map[string]string{}
	type sc struct {
		test, k int
		val     string
	}
	var calls []sc
	for i, t := range c.Tests {
		for k, call := range t.Calls {
			if call.API == "shared" {
				calls = append(calls, sc{i, k, string(call.Val)})
			}
		}
	}
	n := len(calls)
	if n == 0 && c.SharedPre == 0 {
		return files, nil
	}
	spec := c.sharedSpec()
	passed, added := 0, 0
	for _, call := range calls {
		got := obs.outcomes[call.test][call.k]
		switch {
		case got == oAdded:
			added++
		case got == oPassed && c.SharedPre > 0:
			passed++
		default:
			return nil, fmt.Errorf("%s call %d (standalone through the shared Filename, %d files exist beforehand): outcome %q, which no serial order of the calls gives; schedule: %s",
				c.Tests[call.test].Name, call.k+1, c.SharedPre, got, trace)
		}
	}
	wantPassed := c.SharedPre
	if n < wantPassed {
		wantPassed = n
	}
	if passed != wantPassed || added != n-wantPassed {
		return nil, fmt.Errorf("%d calls through the shared Filename with %d files beforehand: %d passed and %d added, every serial order gives %d and %d (an ordinal was handed out twice or skipped); schedule: %s",
			n, c.SharedPre, passed, added, wantPassed, n-wantPassed, trace)
	}
	total := n
	if c.SharedPre > total {
		total = c.SharedPre
	}
	where := map[string][]int{}
	for k := 1; k <= total; k++ {
		p := spec.standalonePath("", k, false)
		got, ok := obs.solo[p]
		if !ok {
			return nil, fmt.Errorf("%d calls through the shared Filename (%d files beforehand) must leave %s_1 .. _%d, but %q is missing (ordinal %d was never handed out); files: %v; schedule: %s",
				n, c.SharedPre, spec.Filename, total, p, k, vhKeysOfStrMap(obs.solo), trace)
		}
		files[p] = got
		where[got] = append(where[got], k)
	}
	if c.SharedPre > 0 {
		for p, got := range files {
			if got != sharedSame {
				return nil, fmt.Errorf("shared standalone file %q holds %q, want %q; schedule: %s", p, vhClip(got), sharedSame, trace)
			}
		}
		return files, nil
	}
	last := map[int]int{}
	for _, call := range calls {
		ks := where[call.val]
		if len(ks) != 1 {
			return nil, fmt.Errorf("value %q of %s (call %d through the shared Filename) is in files %v, a serial execution stores it in exactly one; schedule: %s",
				vhClip(call.val), c.Tests[call.test].Name, call.k+1, ks, trace)
		}
		if ks[0] <= last[call.test] {
			return nil, fmt.Errorf("%s: its calls through the shared Filename got ordinals out of call order (%d after %d); schedule: %s", c.Tests[call.test].Name, ks[0], last[call.test], trace)
		}
		last[call.test] = ks[0]
	}
	return files, nil
}

func vhKeysOfStrMap(m map[string]string) []string {
	var out []string
	for k := range m {
		out = append(out, k)
	}
	sort.Strings(out)
	return out
}

// concretize maps abstract preemptions to exact (task, yield number) pairs using a dry run.
func vhConcretize(c schedCase) ([]vsched.Preempt, error) {
	if c.Exact != nil || len(c.Preempts) == 0 {
		return c.Exact, nil
	}
	dry, err := runSched(c, nil, true)
	if err != nil {
		return nil, err
	}
	var out []vsched.Preempt
	for _, p := range c.Preempts {
		g := p.G % len(c.Tests)
		sites := dry.sess.Sites[g]
		if len(sites) == 0 {
			continue
		}
		var cand []int
		for k, s := range sites {
			if p.All || siteInteresting(s) {
				cand = append(cand, k+1)
			}
		}
		if len(cand) == 0 {
			for k := range sites {
				cand = append(cand, k+1)
			}
		}
		out = append(out, vsched.Preempt{G: g, K: cand[p.Pos%len(cand)], Choice: p.Choice})
	}
	return out, nil
}

func checkSched(c schedCase) error {
	pre, err := vhConcretize(c)
	if err != nil {
		return err
	}
	obs, err := runSched(c, pre, false)
	if err != nil {
		return err
	}
	col := getCollector("C06", "TestC06_Schedules")
	if obs.sess.Effective > 0 {
		col.bump("observed_effective_preemption")
	}
	if err := judgeSched(c, obs); err != nil {
		return fmt.Errorf("%v; exact preemptions %+v", err, pre)
	}
	return nil
}

func genSchedScenario(t *rapid.T) schedCase {
	c := schedCase{}
	n := rapid.IntRange(2, 4).Draw(t, "ntests")
	names := genNamePool(t, n+1)
	vals := []string{"v1", "v2", "a longer value\nwith lines", "", "x", "three\nline\nvalue", "l1\nl2\nl3\nl4", schedBig1, schedBig2}
	for i := rapid.IntRange(0, 2).Draw(t, "nforeign"); i > 0; i-- {
		c.Foreign = append(c.Foreign, Entry{ID: BS(entryID(names[n], i)), Body: BS(refEscape(rapid.SampledFrom(vals).Draw(t, "fbody")))})
	}
	shape := rapid.IntRange(0, 4).Draw(t, "shape")
	for i := 0; i < n; i++ {
		st := schedTest{Name: names[i]}
		for k := rapid.IntRange(1, 3).Draw(t, "ncalls"); k > 0; k-- {
			kind := rapid.SampledFrom([]string{"create", "match", "mismatch", "update"}).Draw(t, "kind")
			switch {
			case shape == 0 && i == 0:
				kind = "update" // the shape that matters most: an updater ...
			case shape == 0 && i == 1:
				kind = "create" // ... next to a creator
			case shape == 1:
				kind = "update"
			case shape == 2:
				kind = "create"
			}
			api := rapid.SampledFrom([]string{"", "", "", "json", "yaml", "ssnap", "ssnap"}).Draw(t, "api")
			pool := vals
			switch api {
			case "json":
				pool = []string{`{"v":1}`, `{"v":2,"w":[1,2,3]}`, `[1,{"a":"b"}]`, `"str"`}
			case "yaml":
				pool = []string{"v: 1\n", "v: 2\nw:\n  - a\n  - b\n", "- x\n- y\n", "a: 1\n---\nb: 2\n"}
			}
			v := rapid.SampledFrom(pool).Draw(t, "val")
			call := schedCall{Kind: kind, API: api, Val: BS(v)}
			if kind == "mismatch" || kind == "update" {
				old := rapid.SampledFrom(pool).Draw(t, "old")
				if old == v {
					old = pool[(vhIndexOf(pool, v)+1)%len(pool)]
				}
				call.Old = BS(old)
			}
			st.Calls = append(st.Calls, call)
		}
		c.Tests = append(c.Tests, st)
	}
	c.Shuffle = rapid.Permutation(vhIndices(12)).Draw(t, "shuffle")
	if len(c.initialEntries()) == 0 && len(c.standaloneFiles(true)) == 0 {
		c.FreshDir = rapid.Bool().Draw(t, "freshdir")
	}
	return c
}

func genSchedCase(t *rapid.T) schedCase {
	c := genSchedScenario(t)
	for i := rapid.IntRange(0, 3).Draw(t, "npreempt"); i > 0; i-- {
		c.Preempts = append(c.Preempts, abstractPreempt{G: rapid.IntRange(0, len(c.Tests)-1).Draw(t, "g"), Pos: rapid.IntRange(0, 9999).Draw(t, "pos"),
			All: rapid.IntRange(0, 3).Draw(t, "all") == 0, Choice: rapid.IntRange(0, 3).Draw(t, "choice")})
	}
	c.Order = rapid.SliceOfN(rapid.IntRange(0, 3), 0, 6).Draw(t, "order")
	return c
}

func classifySched(c schedCase) ([]string, bool) {
	kinds := map[string]bool{}
	for _, t := range c.Tests {
		for _, call := range t.Calls {
			kinds[call.Kind] = true
		}
	}
	var cls []string
	for k := range kinds {
		cls = append(cls, "has_"+k)
	}
	sort.Strings(cls)
	cls = append(cls, fmt.Sprintf("tasks_%d", len(c.Tests)), fmt.Sprintf("preemptions_%d", len(c.Preempts)+len(c.Exact)))
	writers := 0
	for _, t := range c.Tests {
		for _, call := range t.Calls {
			if call.Kind == "create" || call.Kind == "update" {
				writers++
				break
			}
		}
	}
	for _, t := range c.Tests {
		for _, call := range t.Calls {
			if len(call.Val) > 4096 {
				cls = append(cls, "entry_larger_than_4096_bytes")
				break
			}
		}
	}
	return cls, len(c.Preempts)+len(c.Exact) >= 1 && writers >= 2
}

func TestC06_Schedules(t *testing.T) {
	prop[schedCase]{property: "C06", gen: genSchedCase, check: checkSched, classify: classifySched}.run(t)
}

// exhaustive: every schedule with at most two preemptions of fixed two-task scenarios
var exhaustiveScenarios = []schedCase{
	{Foreign: []Entry{{ID: "TestC - 1", Body: "keep"}}, Tests: []schedTest{
		{Name: "TestA", Calls: []schedCall{{Kind: "update", Val: "new", Old: "old"}}},
		{Name: "TestB", Calls: []schedCall{{Kind: "create", Val: "bval"}}}}},
	{Tests: []schedTest{
		{Name: "TestA", Calls: []schedCall{{Kind: "update", Val: "new a", Old: "old a\nwith three\nlines"}}},
		{Name: "TestAB", Calls: []schedCall{{Kind: "update", Val: "new b\nnow longer", Old: "old b"}}}}},
	{Foreign: []Entry{{ID: "TestC - 1", Body: "keep"}}, Tests: []schedTest{
		{Name: "TestA", Calls: []schedCall{{Kind: "create", Val: "a1"}, {Kind: "create", Val: "a2"}}},
		{Name: "TestB", Calls: []schedCall{{Kind: "create", Val: "b1"}}}}},
	{Tests: []schedTest{
		{Name: "TestA", Calls: []schedCall{{Kind: "update", Val: "new", Old: "old"}}},
		{Name: "TestB", Calls: []schedCall{{Kind: "match", Val: "same"}, {Kind: "mismatch", Val: "x", Old: "y"}}}}},
	// nothing exists yet: two creators and a snapshot directory three missing levels deep
	{FreshDir: true, Tests: []schedTest{
		{Name: "TestA", Calls: []schedCall{{Kind: "create", Val: "a1"}}},
		{Name: "TestB", Calls: []schedCall{{Kind: "create", Val: "b1"}, {Kind: "create", API: "ssnap", Val: "b standalone"}}}}},
	// standalone snapshots of two live tests whose names differ in case only: each owns its files 1 and 2
	{Tests: []schedTest{
		{Name: "TestA/get", Calls: []schedCall{{Kind: "create", API: "ssnap", Val: "v1"}, {Kind: "update", API: "ssnap", Val: "v2", Old: "old"}}},
		{Name: "TestA/GET", Calls: []schedCall{{Kind: "match", API: "ssnap", Val: "w1"}, {Kind: "create", API: "ssnap", Val: "w2"}}}}},
}

// scenarios enumerated with every single preemption (both tiers) and every pair (thorough): entries beyond buffer sizes
var exhaustiveBigScenarios = []schedCase{
	{Foreign: []Entry{{ID: "TestC - 1", Body: "keep"}}, Tests: []schedTest{
		{Name: "TestA", Calls: []schedCall{{Kind: "create", Val: BS(schedBig1)}}},
		{Name: "TestB", Calls: []schedCall{{Kind: "create", Val: "bval"}}}}},
	{Tests: []schedTest{
		{Name: "TestA", Calls: []schedCall{{Kind: "update", Val: BS(schedBig2), Old: "old"}}},
		{Name: "TestB", Calls: []schedCall{{Kind: "create", Val: BS(schedBig1)}}}}},
}

func TestC06_ExhaustiveBig(t *testing.T) {
	nshards, _ := strconv.Atoi(vhGetenv("VERIF_NSHARDS", "1"))
	shard, _ := strconv.Atoi(vhGetenv("VERIF_SHARD", "0"))
	p := prop[schedCase]{property: "C06", check: checkSched, classify: classifySched}
	p.enumerate(t, func(yield func(schedCase) bool) {
		idx := 0
		for _, base := range exhaustiveBigScenarios {
			for first := range base.Tests {
				sc := base
				sc.Order = []int{first}
				dry, _ := runSched(sc, nil, true)
				type pos struct{ g, k int }
				var all []pos
				for g, sites := range dry.sess.Sites {
					for k := 1; k <= len(sites)+3; k++ {
						all = append(all, pos{g, k})
					}
				}
				for _, a := range all {
					idx++
					if idx%nshards != shard {
						continue
					}
					c := sc
					c.Exact = []vsched.Preempt{{G: a.g, K: a.k}}
					if !yield(c) {
						return
					}
				}
				if !tierThorough() {
					continue
				}
				for i := 0; i < len(all); i++ {
					for j := i + 1; j < len(all); j++ {
						idx++
						if idx%nshards != shard {
							continue
						}
						c := sc
						c.Exact = []vsched.Preempt{{G: all[i].g, K: all[i].k}, {G: all[j].g, K: all[j].k}}
						if !yield(c) {
							return
						}
					}
				}
			}
		}
	})
}

func TestC06_Exhaustive2(t *testing.T) {
	nshards, _ := strconv.Atoi(vhGetenv("VERIF_NSHARDS", "1"))
	shard, _ := strconv.Atoi(vhGetenv("VERIF_SHARD", "0"))
	scenarios := exhaustiveScenarios
	p := prop[schedCase]{property: "C06", check: checkSched, classify: classifySched}
	p.enumerate(t, func(yield func(schedCase) bool) {
		idx := 0
		for si, base := range scenarios {
			// quick tier: the first scenario with every yield, the others with the yields in front of file-system / lock /
			// registry statements only; thorough tier: every yield of every scenario
			onlyInteresting := si > 0 && !tierThorough()
			for first := range base.Tests { // which task runs first is part of the schedule
				sc := base
				sc.Order = []int{first}
				dry, _ := runSched(sc, nil, true)
				type pos struct{ g, k int }
				var all []pos
				for g, sites := range dry.sess.Sites {
					// a little beyond the dry-run length: preempted runs can be longer
					for k := 1; k <= len(sites)+3; k++ {
						if onlyInteresting && (k > len(sites) || !siteInteresting(sites[k-1])) {
							continue
						}
						all = append(all, pos{g, k})
					}
				}
				stride := 1
				if !tierThorough() {
					stride = 1
				}
				// one preemption
				for _, a := range all {
					idx++
					if idx%nshards != shard {
						continue
					}
					c := sc
					c.Exact = []vsched.Preempt{{G: a.g, K: a.k}}
					if !yield(c) {
						return
					}
				}
				// two preemptions
				for i := 0; i < len(all); i += stride {
					for j := i + 1; j < len(all); j++ {
						idx++
						if idx%nshards != shard {
							continue
						}
						c := sc
						c.Exact = []vsched.Preempt{{G: all[i].g, K: all[i].k}, {G: all[j].g, K: all[j].k}}
						if !yield(c) {
							return
						}
					}
				}
			}
		}
	})
}

// TestC06_Exhaustive3: every schedule with exactly three preemptions placed at yields before file-system / lock /
// registry statements (the "interesting" sites), for the first two fixed scenarios. Thorough tier only.
func TestC06_Exhaustive3(t *testing.T) {
	if !tierThorough() {
		t.Skip("thorough tier only")
	}
	nshards, _ := strconv.Atoi(vhGetenv("VERIF_NSHARDS", "1"))
	shard, _ := strconv.Atoi(vhGetenv("VERIF_SHARD", "0"))
	p := prop[schedCase]{property: "C06", check: checkSched, classify: classifySched}
	p.enumerate(t, func(yield func(schedCase) bool) {
		idx := 0
		for _, base := range exhaustiveScenarios[:2] {
			for first := range base.Tests {
				sc := base
				sc.Order = []int{first}
				dry, _ := runSched(sc, nil, true)
				type pos struct{ g, k int }
				var all []pos
				for g, sites := range dry.sess.Sites {
					for k, site := range sites {
						if siteInteresting(site) {
							all = append(all, pos{g, k + 1})
						}
					}
				}
				for i := 0; i < len(all); i++ {
					for j := i + 1; j < len(all); j++ {
						for l := j + 1; l < len(all); l++ {
							idx++
							if idx%nshards != shard {
								continue
							}
							c := sc
							c.Exact = []vsched.Preempt{{G: all[i].g, K: all[i].k}, {G: all[j].g, K: all[j].k}, {G: all[l].g, K: all[l].k}}
							if !yield(c) {
								return
							}
						}
					}
				}
			}
		}
	})
}

func vhIndexOf(ss []string, s string) int {
	for i, x := range ss {
		if x == s {
			return i
		}
	}
	return 0
}

// C03's concurrency clause ("... no matter which other tests ran before it, run concurrently ..."; "creating or rewriting one
// slot never changes the value that any other slot replays as"): the same generated scenarios x schedules, judged by the same
// serial prediction - every call addresses its own slot and no slot is lost, duplicated or reverted by another test's write.
// Standalone calls of parallel tests through ONE explicit Filename (a shared golden-file Config): the tests share the ordinal
// sequence of that name. Generated: 2-4 tests, 1-3 such calls each, optionally mixed with multi-entry calls of their own,
// either from nothing (all values different) or next to 1-3 existing files (all values equal), 0-3 preemptions.
func genSchedShared(t *rapid.T) schedCase {
	c := schedCase{}
	n := rapid.IntRange(2, 4).Draw(t, "ntests")
	names := genNamePool(t, n)
	if rapid.IntRange(0, 2).Draw(t, "pre") == 0 {
		c.SharedPre = rapid.IntRange(1, 3).Draw(t, "npre")
	}
	for i := 0; i < n; i++ {
		st := schedTest{Name: names[i]}
		for k, m := 0, rapid.IntRange(1, 3).Draw(t, "ncalls"); k < m; k++ {
			if rapid.IntRange(0, 3).Draw(t, "mixed") == 0 {
				st.Calls = append(st.Calls, schedCall{Kind: "create", Val: BS(fmt.Sprintf("entry %d.%d", i, k))})
			}
			val := fmt.Sprintf("golden value of test %d call %d", i, k)
			if rapid.IntRange(0, 5).Draw(t, "big") == 0 {
				val += "\n" + schedBig1
			}
			kind := "create"
			if c.SharedPre > 0 {
				val, kind = sharedSame, "match"
			}
			st.Calls = append(st.Calls, schedCall{Kind: kind, API: "shared", Val: BS(val)})
		}
		c.Tests = append(c.Tests, st)
	}
	c.FreshDir = c.SharedPre == 0 && rapid.Bool().Draw(t, "fresh_dir")
	for i := rapid.IntRange(0, 3).Draw(t, "npreempt"); i > 0; i-- {
		c.Preempts = append(c.Preempts, abstractPreempt{G: rapid.IntRange(0, len(c.Tests)-1).Draw(t, "g"), Pos: rapid.IntRange(0, 9999).Draw(t, "pos"),
			All: rapid.IntRange(0, 3).Draw(t, "all") == 0, Choice: rapid.IntRange(0, 3).Draw(t, "choice")})
	}
	c.Order = rapid.SliceOfN(rapid.IntRange(0, 3), 0, 6).Draw(t, "order")
	return c
}

func classifyShared(c schedCase) ([]string, bool) {
	cls, _ := classifySched(c)
	if c.SharedPre > 0 {
		cls = append(cls, "shared_filename_files_exist_beforehand")
	} else {
		cls = append(cls, "shared_filename_from_nothing")
	}
	return cls, len(c.Preempts)+len(c.Exact) >= 1
}

func TestC06_SharedFilename(t *testing.T) {
	prop[schedCase]{property: "C06", gen: genSchedShared, check: checkSched, classify: classifyShared}.run(t)
}

var exhaustiveSharedScenarios = []schedCase{
	{FreshDir: true, Tests: []schedTest{
		{Name: "TestA", Calls: []schedCall{{Kind: "create", API: "shared", Val: "a1"}, {Kind: "create", API: "shared", Val: "a2"}}},
		{Name: "TestB", Calls: []schedCall{{Kind: "create", API: "shared", Val: "b1"}}}}},
	{SharedPre: 1, Tests: []schedTest{
		{Name: "TestA", Calls: []schedCall{{Kind: "match", API: "shared", Val: sharedSame}}},
		{Name: "TestA/sub", Calls: []schedCall{{Kind: "match", API: "shared", Val: sharedSame}, {Kind: "match", API: "shared", Val: sharedSame}}}}},
}

// TestC06_ExhaustiveShared: every schedule with one preemption (every yield) and with two preemptions (quick: at the yields in
// front of file-system / lock / registry statements; thorough: every yield) of the two fixed shared-Filename scenarios.
func TestC06_ExhaustiveShared(t *testing.T) {
	nshards, _ := strconv.Atoi(vhGetenv("VERIF_NSHARDS", "1"))
	shard, _ := strconv.Atoi(vhGetenv("VERIF_SHARD", "0"))
	p := prop[schedCase]{property: "C06", check: checkSched, classify: classifyShared}
	p.enumerate(t, func(yield func(schedCase) bool) {
		idx := 0
		for _, base := range exhaustiveSharedScenarios {
			for first := range base.Tests {
				sc := base
				sc.Order = []int{first}
				dry, _ := runSched(sc, nil, true)
				type pos struct {
					g, k int
					hot  bool
				}
				var all []pos
				for g, sites := range dry.sess.Sites {
					for k := 1; k <= len(sites)+3; k++ {
						all = append(all, pos{g, k, k <= len(sites) && siteInteresting(sites[k-1])})
					}
				}
				for _, a := range all {
					idx++
					if idx%nshards != shard {
						continue
					}
					c := sc
					c.Exact = []vsched.Preempt{{G: a.g, K: a.k}}
					if !yield(c) {
						return
					}
				}
				for i := 0; i < len(all); i++ {
					for j := i + 1; j < len(all); j++ {
						if !tierThorough() && !(all[i].hot && all[j].hot) {
							continue
						}
						idx++
						if idx%nshards != shard {
							continue
						}
						c := sc
						c.Exact = []vsched.Preempt{{G: all[i].g, K: all[i].k}, {G: all[j].g, K: all[j].k}}
						if !yield(c) {
							return
						}
					}
				}
			}
		}
	})
}

func TestC03_ConcurrentSlots(t *testing.T) {
	prop[schedCase]{property: "C03", gen: genSchedCase, check: checkSched, classify: classifySched}.run(t)
}

// C19's "the k-th standalone call of a test always maps to file k" while other tests run concurrently: the generated
// scenarios with every call turned into a standalone call (names from the pool: prefixes, case variants, subtests), and every
// schedule with <= 2 preemptions at interesting sites of the case-variant scenario.
func genSchedCaseStandalone(t *rapid.T) schedCase {
	c := genSchedCase(t)
	for ti := range c.Tests {
		for ci := range c.Tests[ti].Calls {
			call := &c.Tests[ti].Calls[ci]
			if call.API != "" && call.API != "ssnap" {
				continue // JSON / YAML documents stay multi-entry calls next to the standalone ones
			}
			call.API = "ssnap"
		}
	}
	c.FreshDir = c.FreshDir && len(c.initialEntries()) == 0 && len(c.standaloneFiles(true)) == 0
	return c
}

func TestC19_ConcurrentStandalone(t *testing.T) {
	prop[schedCase]{property: "C19", gen: genSchedCaseStandalone, check: checkSched, classify: classifySched}.run(t)
}

func TestC19_ExhaustiveCaseNames(t *testing.T) {
	nshards, _ := strconv.Atoi(vhGetenv("VERIF_NSHARDS", "1"))
	shard, _ := strconv.Atoi(vhGetenv("VERIF_SHARD", "0"))
	base := exhaustiveScenarios[len(exhaustiveScenarios)-1]
	p := prop[schedCase]{property: "C19", check: checkSched, classify: classifySched}
	p.enumerate(t, func(yield func(schedCase) bool) {
		idx := 0
		for first := range base.Tests {
			sc := base
			sc.Order = []int{first}
			dry, _ := runSched(sc, nil, true)
			type pos struct{ g, k int }
			var all []pos
			for g, sites := range dry.sess.Sites {
				for k, site := range sites {
					if tierThorough() || siteInteresting(site) {
						all = append(all, pos{g, k + 1})
					}
				}
			}
			for i := -1; i < len(all); i++ {
				for j := i + 1; j < len(all); j++ {
					idx++
					if idx%nshards != shard {
						continue
					}
					c := sc
					if i >= 0 {
						c.Exact = append(c.Exact, vsched.Preempt{G: all[i].g, K: all[i].k})
					}
					c.Exact = append(c.Exact, vsched.Preempt{G: all[j].g, K: all[j].k})
					if !yield(c) {
						return
					}
				}
			}
		}
	})
}
