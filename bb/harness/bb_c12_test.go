//go:build verif

// Black-box relations with the real runner:
//   - C12 (order independence): the snapshots of a test do not depend on which other tests ran earlier in the process
//     (all tests of the program versus -test.run selecting one of them).
//   - C01 (replay): what one build of the test program records, another build (-trimpath or not) replays read-only.
package bbh

import (
	"fmt"
	"path/filepath"
	"regexp"
	"sort"
	"strings"
	"testing"

	"pgregory.net/rapid"
)

type bbTest struct {
	File  string `json:"file"`
	Test  string `json:"test"`
	Steps []Step `json:"steps"`
}

type bbOrderCase struct {
	Pkg   string   `json:"pkg"`
	Tests []bbTest `json:"tests"`
	Only  int      `json:"only"` // index of the test that the second process runs alone
	AbsID int      `json:"abs_dir_id"`
	Trim  bool     `json:"trimpath_build"`
}

func genBBTests(t *rapid.T, min int) (string, []bbTest) {
	pkg := rapid.SampledFrom([]string{".", ".", ".", "sub", "sub/deep/er"}).Draw(t, "pkg")
	var pool []struct{ pkg, file, test string }
	for _, o := range c11Tests {
		if o.pkg == pkg {
			pool = append(pool, o)
		}
	}
	n := rapid.IntRange(min, len(pool)).Draw(t, "ntests")
	if n > 3 {
		n = 3
	}
	perm := rapid.Permutation(vhIndices(len(pool))).Draw(t, "tests")
	var out []bbTest
	for _, i := range perm[:n] {
		out = append(out, bbTest{File: pool[i].file, Test: pool[i].test, Steps: genC11StepsAt(t, 1, false)})
	}
	return pkg, out
}

func genBBOrder(t *rapid.T) bbOrderCase {
	c := bbOrderCase{AbsID: rapid.IntRange(0, 1).Draw(t, "absid"), Trim: rapid.IntRange(0, 3).Draw(t, "trim") == 0}
	c.Pkg, c.Tests = genBBTests(t, 2)
	c.Only = rapid.IntRange(0, len(c.Tests)-1).Draw(t, "only")
	if !c.Trim && rapid.IntRange(0, 2).Draw(t, "chdir") == 0 {
		// one of the tests changes the working directory of the process and never restores it (not with -trimpath builds,
		// whose relative locations depend on the working directory by documented design)
		i := rapid.IntRange(0, len(c.Tests)-1).Draw(t, "chdirtest")
		step := Step{Op: "chdir"}
		if rapid.Bool().Draw(t, "chdirfirst") {
			c.Tests[i].Steps = append([]Step{step}, c.Tests[i].Steps...)
		} else {
			c.Tests[i].Steps = append(c.Tests[i].Steps, step)
		}
	}
	return c
}

// snapshot items of one test: "<file>\x00<entry id>\x00<body>" for entries, "<file>\x00\x00<content>" for standalone files
func itemsOf(files map[string]string, test string) ([]string, error) {
	var out []string
	flat := strings.ReplaceAll(rewriteName(test), "/", "_")
	for p, data := range files {
		rel, _ := filepath.Rel(shardRoot(), p)
		base := filepath.Base(p)
		if es, err := refParse(data); err == nil && len(es) > 0 && !regexp.MustCompile(`_\d+\.snap`).MatchString(base) {
			for _, e := range es {
				if strings.HasPrefix(e.ID, test+" - ") || strings.HasPrefix(e.ID, test+"/") {
					out = append(out, rel+"\x00"+e.ID+"\x00"+e.Body)
				}
			}
			continue
		}
		if strings.HasPrefix(base, flat+"_") {
			out = append(out, rel+"\x00\x00"+data)
		}
	}
	sort.Strings(out)
	return out, nil
}

func scenarioOf(tests []bbTest, abs string) Scenario {
	scn := Scenario{Tests: map[string]*Node{}}
	for _, bt := range tests {
		scn.Tests[bt.Test] = &Node{Steps: substituteAbs(bt.Steps, abs)}
	}
	return scn
}

func callErrors(res Result) error {
	for _, cr := range res.Calls {
		if (len(cr.Errors) != 0) != (cr.Tag == "rejected") {
			return fmt.Errorf("call in %s (%s %s) reported %q", cr.Test, cr.API, cr.Tag, cr.Errors)
		}
	}
	return nil
}

func checkBBOrder(c bbOrderCase) error {
	abs := filepath.Join(shardRoot(), fmt.Sprintf("abs%d", c.AbsID))
	scn := scenarioOf(c.Tests, abs)
	only := c.Tests[c.Only].Test
	cleanShard()
	res, out, err := runProgram(RunOpts{Pkg: c.Pkg, Trim: c.Trim}, scn)
	if err != nil {
		return fmt.Errorf("all tests: %v", err)
	}
	if err := callErrors(res); err != nil {
		return fmt.Errorf("all tests: %v (output %s)", err, vhClip(out))
	}
	all, _ := itemsOf(observedFiles(), only)
	cleanShard()
	res, out, err = runProgram(RunOpts{Pkg: c.Pkg, Trim: c.Trim, Run: "^" + regexp.QuoteMeta(only) + "$"}, scn)
	if err != nil {
		return fmt.Errorf("-run %s: %v", only, err)
	}
	if err := callErrors(res); err != nil {
		return fmt.Errorf("-run %s: %v (output %s)", only, err, vhClip(out))
	}
	alone, _ := itemsOf(observedFiles(), only)
	cleanShard()
	if strings.Join(all, "\x01") != strings.Join(alone, "\x01") {
		show := func(items []string) string {
			var s []string
			for _, it := range items {
				parts := strings.SplitN(it, "\x00", 3)
				s = append(s, fmt.Sprintf("%s [%s]", parts[0], parts[1]))
			}
			return strings.Join(s, "\n    ")
		}
		return fmt.Errorf("the snapshots of %s depend on the tests that ran before it in the process:\n  alone (-run ^%s$):\n    %s\n  with all tests of the program:\n    %s", only, only, show(alone), show(all))
	}
	return nil
}

func classifyBBOrder(c bbOrderCase) ([]string, bool) {
	cls := []string{fmt.Sprintf("tests_%d", len(c.Tests))}
	files := map[string]bool{}
	shared := false
	var walk func(steps []Step)
	walk = func(steps []Step) {
		for _, st := range steps {
			if st.Op == "sub" {
				walk(st.Steps)
				continue
			}
			if st.Shape == "helper_nontest" || st.Shape == "helper_pkg" {
				shared = true
			}
			cls = append(cls, "shape_"+st.Shape)
		}
	}
	for _, bt := range c.Tests {
		files[bt.File] = true
		walk(bt.Steps)
	}
	if len(files) >= 2 {
		cls = append(cls, "two_or_more_test_files")
	}
	if shared && len(files) >= 2 {
		cls = append(cls, "shared_helper_call_site_from_two_test_files")
	}
	if c.Trim {
		cls = append(cls, "trimpath_build")
	}
	for _, bt := range c.Tests {
		for _, st := range bt.Steps {
			if st.Op == "chdir" {
				cls = append(cls, "a_test_changes_the_working_directory")
			}
		}
	}
	return uniqStrings(cls), len(files) >= 2
}

func TestC12BB_TestOrderIndependence(t *testing.T) {
	prop[bbOrderCase]{property: "C12", gen: genBBOrder, check: checkBBOrder, classify: classifyBBOrder}.run(t)
}

// C03: "... its k-th Match* call on a given snapshot file always addresses slot (N, k) of that file, no matter which other
// tests ran before it": the same relation (all tests of the program versus the test alone) judged for C03.
func TestC03BB_SlotsIndependentOfOtherTests(t *testing.T) {
	prop[bbOrderCase]{property: "C03", gen: genBBOrder, check: checkBBOrder, classify: classifyBBOrder}.run(t)
}

// ---- C01: cross-build replay -------------------------------------------------------------------------------

type bbReplayCase struct {
	Pkg        string   `json:"pkg"`
	Tests      []bbTest `json:"tests"`
	AbsID      int      `json:"abs_dir_id"`
	RecordTrim bool     `json:"record_with_trimpath_build"`
	ReplayTrim bool     `json:"replay_with_trimpath_build"`
	ReplayCI   bool     `json:"replay_on_ci"`
	Count      int      `json:"replay_count"`
}

func genBBReplay(t *rapid.T) bbReplayCase {
	c := bbReplayCase{AbsID: rapid.IntRange(0, 1).Draw(t, "absid"), RecordTrim: rapid.Bool().Draw(t, "rectrim"), ReplayCI: rapid.Bool().Draw(t, "ci"), Count: rapid.SampledFrom([]int{1, 1, 2}).Draw(t, "count")}
	c.ReplayTrim = !c.RecordTrim
	if rapid.IntRange(0, 3).Draw(t, "samebuild") == 0 {
		c.ReplayTrim = c.RecordTrim
	}
	c.Pkg, c.Tests = genBBTests(t, 1)
	return c
}

func dropRejected(steps []Step) []Step {
	var out []Step
	for _, st := range steps {
		if st.Tag == "rejected" {
			continue
		}
		st.Steps = dropRejected(st.Steps)
		out = append(out, st)
	}
	return out
}

func checkBBReplay(c bbReplayCase) error {
	abs := filepath.Join(shardRoot(), fmt.Sprintf("abs%d", c.AbsID))
	tests := make([]bbTest, len(c.Tests))
	for i, bt := range c.Tests {
		tests[i] = bt
		tests[i].Steps = dropRejected(bt.Steps)
	}
	scn := scenarioOf(tests, abs)
	cleanShard()
	defer cleanShard()
	res, out, err := runProgram(RunOpts{Pkg: c.Pkg, Trim: c.RecordTrim}, scn)
	if err != nil {
		return fmt.Errorf("recording run: %v", err)
	}
	if err := callErrors(res); err != nil {
		return fmt.Errorf("recording run: %v (output %s)", err, vhClip(out))
	}
	before := observedFiles()
	res, out, err = runProgram(RunOpts{Pkg: c.Pkg, Trim: c.ReplayTrim, CI: c.ReplayCI, Count: c.Count}, scn)
	if err != nil {
		return fmt.Errorf("replay run: %v", err)
	}
	for _, cr := range res.Calls {
		if len(cr.Errors) != 0 {
			return fmt.Errorf("recorded by a build with -trimpath=%v, replayed by a build with -trimpath=%v (CI=%v): the identical call in %s (%s) fails: %q", c.RecordTrim, c.ReplayTrim, c.ReplayCI, cr.Test, cr.API, cr.Errors)
		}
	}
	after := observedFiles()
	var diffs []string
	for p, d := range after {
		if b, ok := before[p]; !ok {
			rel, _ := filepath.Rel(shardRoot(), p)
			diffs = append(diffs, "created "+rel)
		} else if b != d {
			rel, _ := filepath.Rel(shardRoot(), p)
			diffs = append(diffs, "changed "+rel)
		}
	}
	for p := range before {
		if _, ok := after[p]; !ok {
			rel, _ := filepath.Rel(shardRoot(), p)
			diffs = append(diffs, "deleted "+rel)
		}
	}
	sort.Strings(diffs)
	if len(diffs) > 0 {
		return fmt.Errorf("recorded by a build with -trimpath=%v, replayed by a build with -trimpath=%v (CI=%v): replaying the identical values wrote: %s", c.RecordTrim, c.ReplayTrim, c.ReplayCI, strings.Join(diffs, ", "))
	}
	return nil
}

func classifyBBReplay(c bbReplayCase) ([]string, bool) {
	cls := []string{fmt.Sprintf("record_trim_%v_replay_trim_%v", c.RecordTrim, c.ReplayTrim)}
	if c.ReplayCI {
		cls = append(cls, "replay_on_ci")
	}
	if c.Count > 1 {
		cls = append(cls, "replay_count_gt_1")
	}
	return cls, c.RecordTrim != c.ReplayTrim
}

func TestC01BB_CrossBuildReplay(t *testing.T) {
	prop[bbReplayCase]{property: "C01", gen: genBBReplay, check: checkBBReplay, classify: classifyBBReplay}.run(t)
}

// ---- C19: standalone files of a real test program ------------------------------------------------------------
// The k-th standalone call of a test maps to file k at the documented location - wherever the program is checked out
// (odd shards: a directory with '%' and a blank in its name) - holds exactly the value, and replays read-only.

type bbStandaloneCase struct {
	Pkg    string   `json:"pkg"`
	Test   string   `json:"test"`
	File   string   `json:"file"`
	Dir    *string  `json:"dir"` // nil = default directory
	Ext    string   `json:"ext"`
	Values []string `json:"values"` // one MatchStandaloneSnapshot call per value, in this order
	Trim   bool     `json:"trimpath_build"`
}

func genBBStandalone(t *rapid.T) bbStandaloneCase {
	tt := rapid.SampledFrom(c11Tests).Draw(t, "test")
	c := bbStandaloneCase{Pkg: tt.pkg, Test: tt.test, File: tt.file, Ext: rapid.SampledFrom([]string{"", "", ".txt", ".%d"}).Draw(t, "ext"), Trim: rapid.IntRange(0, 3).Draw(t, "trim") == 0}
	switch rapid.IntRange(0, 3).Draw(t, "dir") {
	case 1:
		c.Dir = strp("snapdir")
	case 2:
		c.Dir = strp("50%_done/snaps")
	}
	c.Values = rapid.SliceOfN(rapid.SampledFrom([]string{"value", "", "a\r\nb\r\n", "---", "100% done %d %s", "line 1\nline 2\n", "\ufeffbom", "[TestAlpha - 1]\nx\n---\n", "é", " "}), 1, 12).Draw(t, "values")
	return c
}

func checkBBStandalone(c bbStandaloneCase) error {
	var steps []Step
	for _, v := range c.Values {
		steps = append(steps, Step{Op: "call", API: "ssnap", Cfg: Cfg{Dir: c.Dir, Ext: c.Ext}, Value: v, Shape: "direct"})
	}
	want := expectedC11(c11Case{Pkg: c.Pkg, Test: c.Test, File: c.File, Steps: steps}, "")
	scn := Scenario{Tests: map[string]*Node{c.Test: {Steps: steps}}}
	cleanShard()
	defer cleanShard()
	res, out, err := runProgram(RunOpts{Pkg: c.Pkg, Trim: c.Trim}, scn)
	if err != nil {
		return fmt.Errorf("recording run: %v", err)
	}
	if err := callErrors(res); err != nil {
		return fmt.Errorf("recording run: %v (output %s)", err, vhClip(out))
	}
	got := observedFiles()
	if len(got) != len(want) {
		var gl []string
		for p := range got {
			gl = append(gl, p)
		}
		sort.Strings(gl)
		return fmt.Errorf("%d standalone calls created %d files: %v", len(c.Values), len(got), relAll(gl))
	}
	// file k holds value k
	dir := "__snapshots__"
	if c.Dir != nil {
		dir = *c.Dir
	}
	for k, v := range c.Values {
		p := filepath.Join(scnRoot, c.Pkg, dir, fmt.Sprintf("%s_%d.snap%s", c.Test, k+1, c.Ext))
		data, ok := got[p]
		if !ok {
			var gl []string
			for q := range got {
				gl = append(gl, q)
			}
			sort.Strings(gl)
			return fmt.Errorf("standalone call %d of %s must live in %q; files created: %v", k+1, c.Test, relAll([]string{p})[0], relAll(gl))
		}
		if data != v {
			return fmt.Errorf("file %d (%q) holds %q, the value of call %d is %q", k+1, relAll([]string{p})[0], vhClip(data), k+1, vhClip(v))
		}
	}
	// read-only replay on CI
	res, out, err = runProgram(RunOpts{Pkg: c.Pkg, Trim: c.Trim, CI: true}, scn)
	if err != nil {
		return fmt.Errorf("replay run: %v", err)
	}
	for _, cr := range res.Calls {
		if len(cr.Errors) != 0 {
			return fmt.Errorf("replaying the identical standalone call on CI fails: %q", cr.Errors)
		}
	}
	after := observedFiles()
	if len(after) != len(got) {
		return fmt.Errorf("the replay on CI changed the number of files from %d to %d", len(got), len(after))
	}
	for p, d := range got {
		if after[p] != d {
			return fmt.Errorf("the replay on CI changed %q", relAll([]string{p})[0])
		}
	}
	return nil
}

func TestC19BB_StandaloneFiles(t *testing.T) {
	prop[bbStandaloneCase]{property: "C19", gen: genBBStandalone, check: checkBBStandalone, classify: func(c bbStandaloneCase) ([]string, bool) {
		cls := []string{fmt.Sprintf("calls_%d", min(len(c.Values), 10))}
		if strings.Contains(filepath.Base(scnRoot), "%") {
			cls = append(cls, "program_checked_out_under_a_path_with_percent_and_blank")
		}
		if c.Trim {
			cls = append(cls, "trimpath_build")
		}
		return cls, len(c.Values) >= 2
	}}.run(t)
}
