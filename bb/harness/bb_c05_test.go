//go:build verif

// C05 Write permissions follow the mode table; CI runs are read-only. Exhaustive table x generated content.
package bbh

import (
	"fmt"
	"os"
	"path/filepath"
	"sort"
	"strconv"
	"strings"
	"testing"

	"pgregory.net/rapid"
)

type c05Cell struct {
	CI       bool   `json:"ci"`
	Opt      string `json:"update_option"` // unset | true | false
	Upd      string `json:"update_snaps"`  // "<unset>" or the value
	Sort     bool   `json:"sort"`
	API      string `json:"api"`
	State    string `json:"entry_state"` // missing | equal | different
	Obsolete bool   `json:"obsolete_items"`
	Val      string `json:"value"`
	OldVal   string `json:"old_value"`
	Ext      string `json:"ext"`
	// Pre: how the pre-existing snapshot is presented to the run: "" as the library wrote it; "crlf": the multi-entry file
	// converted to CRLF line ends (a checkout with core.autocrlf); "symlink": the standalone file is a symbolic link to
	// the real file (runfiles trees, shared golden directories); "dup": the multi-entry file holds a second entry with an
	// id that occurs already (a merge that kept both hunks; readers use the first). None changes what the run may write.
	Pre string `json:"preexisting_form,omitempty"`
	// CIEnv: on CI cells, the variable through which the run is recognised as a CI run ("" = CI=true): any of the
	// vendor-neutral variables and vendors the ciinfo package knows
	CIEnv string `json:"ci_env,omitempty"`
	// ForeignCwd: the test process runs with a working directory that is not the package directory (a test binary started
	// from the repository root, a test that changed directory)
	ForeignCwd bool `json:"foreign_cwd,omitempty"`
	// Shuffle: the run passes -test.shuffle (on / a seed): the order of tests is none of the mode table's inputs
	Shuffle string `json:"shuffle,omitempty"`
	// FailedBefore: before the call of the cell, the same test made a call that failed (a missing snapshot through a Config
	// with Update(false)): the test has failed already - the mode table does not ask
	FailedBefore bool `json:"test_already_failed_before_the_call,omitempty"`
	// Count2: the run executes every test twice (-test.count=2): the second execution finds what the first one left - a
	// missing snapshot that may not be created is missing (and reported) again
	Count2 bool `json:"count_2,omitempty"`
}

const unsetEnv = "<unset>"

func c05Value(api string, seed int) string {
	switch api {
	case "json", "sjson":
		return fmt.Sprintf(`{"n":%d,"s":%q}`, seed%1000, rapid.StringMatching(`[a-z ]{0,8}`).Example(seed))
	case "yaml":
		return fmt.Sprintf("n: %d\ns: %s\n", seed%1000, rapid.StringMatching(`[a-z]{1,8}`).Example(seed))
	}
	return rapid.StringMatching(`[a-zA-Z0-9 \-\[\]]{0,12}(\n[a-z\-]{0,5}){0,2}`).Example(seed)
}

func allC05Cells(seed int) []c05Cell {
	var cells []c05Cell
	others := []string{"1", "TRUE", "false", "yes", "clean ", "True", "t"}
	i := 0
	for _, ci := range []bool{false, true} {
		for _, opt := range []string{"unset", "true", "false"} {
			for _, updKind := range []string{unsetEnv, "true", "clean", "other"} {
				for _, srt := range []bool{false, true} {
					for _, api := range []string{"snap", "json", "yaml", "ssnap", "sjson"} {
						for _, state := range []string{"missing", "equal", "different"} {
							for _, obs := range []bool{false, true} {
								i++
								upd := updKind
								if updKind == "other" {
									upd = others[(i+seed)%len(others)]
								}
								c := c05Cell{CI: ci, Opt: opt, Upd: upd, Sort: srt, API: api, State: state, Obsolete: obs}
								c.Val = c05Value(api, seed*100003+i)
								c.OldVal = c05Value(api, seed*100003+i+7777)
								if c.OldVal == c.Val {
									c.OldVal = c.Val + "x"
									if api != "snap" && api != "ssnap" {
										c.OldVal = c05Value(api, seed*100003+i+9999)
									}
								}
								if api == "ssnap" && (i+seed)%4 == 0 {
									c.OldVal = "" // an existing but EMPTY standalone snapshot is still an existing snapshot
								}
								if api == "ssnap" && (i+seed)%7 == 0 && state == "equal" {
									c.Val, c.OldVal = "", "was not empty"
								}
								if (api == "snap" || api == "ssnap") && (i+seed)%6 == 5 {
									c.Val = []string{"---", "---\n", ""}[(i+seed)/6%3] // a markdown rule / nothing at all is a value too
								}
								if (api == "snap" || api == "ssnap") && (i+seed)%6 == 2 {
									c.OldVal = []string{"---", "", "---\n---"}[(i+seed)/6%3]
								}
								if c.OldVal == c.Val {
									c.OldVal = c.Val + "x"
								}
								c.Ext = []string{"", "", ".txt"}[(i+seed)%3]
								if ci {
									c.CIEnv = []string{"", "", "BUILD_NUMBER=17", "CONTINUOUS_INTEGRATION=true", "RUN_ID=4", "CI_NAME=codeship", "GITHUB_ACTIONS=true", "BUILD_ID=9"}[(i+seed)%8]
								}
								c.ForeignCwd = (i+seed)%5 == 3
								c.Shuffle = []string{"", "", "on", "", "1234567", ""}[(i+seed)%6]
								c.FailedBefore = (i+seed)%4 == 3
								c.Count2 = (i+seed)%5 == 1
								switch {
								case (api == "snap" || api == "json" || api == "yaml") && (i+seed)%4 == 1:
									c.Pre = "crlf"
								case (api == "ssnap" || api == "sjson") && state != "missing" && (i+seed)%3 == 1:
									c.Pre = "symlink"
								case (i+seed)%4 == 2 && !srt && !obs:
									// a file in which an id occurs twice (a git merge that kept both hunks): readers use the first one;
									// only cells in which nothing may rewrite the multi-entry file's other entries
									c.Pre = "dup"
								}
								cells = append(cells, c)
							}
						}
					}
				}
			}
		}
	}
	return cells
}

type c05Expect struct {
	outcome string // passed | added | updated | failed
	deletes bool
	sorts   bool
}

// the mode table of the statement, written once
func expectC05(c c05Cell) c05Expect {
	e := c05Expect{}
	mayCreate := !c.CI && c.Opt != "false"
	mayRewrite := !c.CI && (c.Opt == "true" || (c.Opt == "unset" && c.Upd == "true"))
	switch c.State {
	case "missing":
		e.outcome = "failed"
		if mayCreate {
			e.outcome = "added"
		}
	case "equal":
		e.outcome = "passed"
	case "different":
		e.outcome = "failed"
		if mayRewrite {
			e.outcome = "updated"
		}
	}
	e.deletes = !c.CI && (c.Upd == "true" || c.Upd == "clean")
	e.sorts = c.Sort && !c.CI
	return e
}

func outcomeOfCall(cr *CallResult) string {
	switch {
	case cr == nil:
		return "not executed"
	case len(cr.Errors) == 0 && len(cr.Logs) == 0:
		return "passed"
	case len(cr.Errors) == 0 && len(cr.Logs) == 1 && strings.Contains(cr.Logs[0], "Snapshot added"):
		return "added"
	case len(cr.Errors) == 0 && len(cr.Logs) == 1 && strings.Contains(cr.Logs[0], "Snapshot updated"):
		return "updated"
	case len(cr.Errors) == 1 && len(cr.Logs) == 0:
		return "failed"
	}
	return fmt.Sprintf("several signals: errors=%q logs=%q", cr.Errors, cr.Logs)
}

func checkC05(c c05Cell) error {
	root, err := os.MkdirTemp(os.Getenv("VERIF_SCRATCH"), "c05")
	if err != nil {
		return err
	}
	defer os.RemoveAll(root)
	dir := filepath.Join(root, "snaps")
	cfgM := Cfg{Dir: strp(dir), Filename: "f", Ext: c.Ext}
	cfgCut := cfgM
	if c.API == "ssnap" || c.API == "sjson" {
		cfgCut.Filename = ""
	}
	switch c.Opt {
	case "true":
		cfgCut.Update = vhBoolp(true)
	case "false":
		cfgCut.Update = vhBoolp(false)
	}
	inRun := false
	alpha := func(cutValue string, withCut bool, cfgForCut Cfg) *Node {
		n := &Node{Steps: []Step{
			{Op: "sub", Name: "zz", Steps: []Step{{Op: "call", API: "snap", Cfg: cfgM, Value: "zz value"}}},
			{Op: "sub", Name: "aa", Steps: []Step{{Op: "call", API: "snap", Cfg: cfgM, Value: "aa value\nline 2"}}},
		}}
		if withCut {
			if c.FailedBefore && inRun {
				// (only in the run of the cell: a snapshot that was never recorded, addressed through Update(false))
				n.Steps = append(n.Steps, Step{Op: "call", API: "snap", Cfg: Cfg{Dir: strp(dir), Filename: "neverrecorded", Update: vhBoolp(false)}, Value: "x", Tag: "failing_first"})
			}
			n.Steps = append(n.Steps, Step{Op: "call", API: c.API, Cfg: cfgForCut, Value: cutValue, Tag: "cut"})
		}
		return n
	}
	// preparation (plain environment): record everything incl. the items that will be obsolete
	prepCut := cfgCut
	prepCut.Update = nil
	prep := Scenario{Tests: map[string]*Node{}}
	switch c.State {
	case "missing":
		prep.Tests["TestAlpha"] = alpha("", false, prepCut)
	case "equal":
		prep.Tests["TestAlpha"] = alpha(c.Val, true, prepCut)
	default:
		prep.Tests["TestAlpha"] = alpha(c.OldVal, true, prepCut)
	}
	if c.Obsolete {
		prep.Tests["TestBeta"] = &Node{Steps: []Step{
			{Op: "call", API: "snap", Cfg: cfgM, Value: "stale entry"},
			{Op: "call", API: "ssnap", Cfg: Cfg{Dir: strp(dir), Ext: c.Ext}, Value: "stale standalone"},
			{Op: "call", API: "snap", Cfg: Cfg{Dir: strp(dir), Filename: "stale", Ext: c.Ext}, Value: "stale file"},
		}}
	}
	if _, out, err := runProgram(RunOpts{Pkg: "."}, prep); err != nil {
		return fmt.Errorf("preparation run: %v (%s)", err, vhClip(out))
	}
	multiRel := filepath.Join("snaps", "f.snap"+c.Ext)
	cutMulti := c.API == "snap" || c.API == "json" || c.API == "yaml"
	cutRel := multiRel
	if !cutMulti {
		ext := c.Ext
		if ext == "" && c.API == "sjson" {
			ext = ".json"
		}
		cutRel = filepath.Join("snaps", "TestAlpha_1.snap"+ext)
	}
	realRel := ""
	switch c.Pre {
	case "crlf":
		b, err := os.ReadFile(filepath.Join(root, multiRel))
		if err != nil || strings.Contains(string(b), "\r") {
			return fmt.Errorf("harness: cannot convert %q to CRLF: %v", multiRel, err)
		}
		os.WriteFile(filepath.Join(root, multiRel), []byte(strings.ReplaceAll(string(b), "\n", "\r\n")), 0o644)
	case "dup":
		b, err := os.ReadFile(filepath.Join(root, multiRel))
		if err != nil {
			return fmt.Errorf("harness: %v", err)
		}
		os.WriteFile(filepath.Join(root, multiRel), append(b, []byte("\n[TestAlpha/zz - 1]\nthe second copy of an id (merge leftover)\n---\n")...), 0o644)
	case "symlink":
		realRel = filepath.Join("real", filepath.Base(cutRel))
		os.MkdirAll(filepath.Join(root, "real"), 0o755)
		if err := os.Rename(filepath.Join(root, cutRel), filepath.Join(root, realRel)); err != nil {
			return fmt.Errorf("harness: %v", err)
		}
		if err := os.Symlink(filepath.Join(root, realRel), filepath.Join(root, cutRel)); err != nil {
			return fmt.Errorf("harness: %v", err)
		}
	}
	ageDir(root)
	d0 := snapDir(root)

	// the run of the cell
	inRun = true
	run := Scenario{Tests: map[string]*Node{"TestAlpha": alpha(c.Val, true, cfgCut)}, Clean: CleanSpec{Call: true, Sort: c.Sort}}
	cwd := ""
	if c.ForeignCwd {
		cwd = filepath.Join(root, "some", "other", "working", "directory")
		os.MkdirAll(cwd, 0o755)
		ageDir(root)
		d0 = snapDir(root)
	}
	res, out, err := runProgram(RunOpts{Pkg: ".", CI: c.CI, CIEnv: c.CIEnv, Cwd: cwd, Upd: c.Upd, UpdSet: c.Upd != unsetEnv, Shuffle: c.Shuffle, Count: map[bool]int{false: 1, true: 2}[c.Count2]}, run)
	if err != nil {
		return fmt.Errorf("run: %v (%s)", err, vhClip(out))
	}
	d1 := snapDir(root)
	e := expectC05(c)
	if got := outcomeOfCall(res.byTag("cut")); got != e.outcome {
		return fmt.Errorf("call outcome %q, the mode table says %q (errors %v)", got, e.outcome, res.byTag("cut"))
	}
	if c.Count2 {
		// the second execution: what was added or updated is there now and matches; what could not be written still fails
		second := map[string]string{"added": "passed", "updated": "passed", "passed": "passed", "failed": "failed"}[e.outcome]
		n := 0
		for i := range res.Calls {
			if res.Calls[i].Tag != "cut" {
				continue
			}
			n++
			if n == 2 {
				if got := outcomeOfCall(&res.Calls[i]); got != second {
					return fmt.Errorf("second execution (-count=2): call outcome %q, want %q after a first execution that ended as %q (errors %v)", got, second, e.outcome, res.Calls[i].Errors)
				}
			}
		}
		if n != 2 {
			return fmt.Errorf("-count=2: the call of the cell was executed %d times", n)
		}
	}
	if c.CI {
		if d := diffDirs(d0, d1, true); d != "" {
			return fmt.Errorf("on CI nothing may be created, modified or deleted, but: %s", d)
		}
		return nil
	}
	staleFiles := map[string]bool{}
	if c.Obsolete {
		staleFiles[filepath.Join("snaps", "stale.snap"+c.Ext)] = true
		staleFiles[filepath.Join("snaps", "TestBeta_1.snap"+c.Ext)] = true
	}
	// every file of D0
	for p, b := range d0 {
		a, exists := d1[p]
		switch {
		case b.IsDir:
			if !exists {
				return fmt.Errorf("directory %q removed", p)
			}
		case staleFiles[p]:
			if e.deletes && exists {
				return fmt.Errorf("UPDATE_SNAPS=%q off CI must delete obsolete file %q", c.Upd, p)
			}
			if !e.deletes && (!exists || a.Data != b.Data || !a.Mtime.Equal(b.Mtime)) {
				return fmt.Errorf("UPDATE_SNAPS=%q does not allow deleting, but obsolete file %q was removed or written", c.Upd, p)
			}
		case p == multiRel:
			if !exists {
				return fmt.Errorf("addressed file %q removed", p)
			}
			// line ends are not part of what a snapshot holds: every reader drops a CR in front of the LF
			pre, _ := refParse(strings.ReplaceAll(b.Data, "\r\n", "\n"))
			post, perr := refParse(strings.ReplaceAll(a.Data, "\r\n", "\n"))
			if perr != nil {
				return fmt.Errorf("file %q not well formed after the run: %v", p, perr)
			}
			want := append([]Entry{}, pre...)
			cutID := "TestAlpha - 1"
			touched := false
			if cutMulti {
				switch e.outcome {
				case "added":
					want = append(want, Entry{ID: cutID, Body: "\x00new"})
					touched = true
				case "updated":
					want[findEntry(want, cutID)].Body = "\x00new"
					touched = true
				}
			}
			if e.deletes && c.Obsolete {
				i := findEntry(want, "TestBeta - 1")
				want = append(want[:i], want[i+1:]...)
				touched = true
			}
			if e.sorts {
				sort.SliceStable(want, func(i, j int) bool { return vhNaturalCmp(want[i].ID, want[j].ID) < 0 })
				touched = true
			}
			if len(want) != len(post) {
				return fmt.Errorf("file %q: entries %s, the mode table implies ids %v", p, describe(post), ids(want))
			}
			for i := range want {
				if want[i].ID != post[i].ID {
					return fmt.Errorf("file %q: entry order/ids %v, the mode table implies %v (sort=%v deletes=%v)", p, ids(post), ids(want), e.sorts, e.deletes)
				}
				if want[i].Body == "\x00new" {
					if j := findEntry(pre, want[i].ID); j >= 0 && pre[j].Body == post[i].Body {
						return fmt.Errorf("file %q: entry %q reported as updated but its body did not change", p, want[i].ID)
					}
					if c.API == "snap" && post[i].Body != escapeRuleLines(c.Val) {
						return fmt.Errorf("file %q: entry %q holds %q, want %q", p, want[i].ID, post[i].Body, escapeRuleLines(c.Val))
					}
					continue
				}
				if want[i].Body != post[i].Body {
					return fmt.Errorf("file %q: entry %q changed: %q -> %q", p, want[i].ID, want[i].Body, post[i].Body)
				}
			}
			if !touched && (a.Data != b.Data || !a.Mtime.Equal(b.Mtime)) {
				return fmt.Errorf("file %q: nothing in this mode may write it, but it was written", p)
			}
		case p == cutRel || (realRel != "" && p == realRel):
			switch e.outcome {
			case "updated":
				if a.Data == b.Data {
					return fmt.Errorf("standalone file %q reported updated but unchanged", p)
				}
				if c.API == "ssnap" && a.Data != c.Val {
					return fmt.Errorf("standalone file %q holds %q, want %q", p, a.Data, c.Val)
				}
			default:
				if !exists || a.Data != b.Data || !a.Mtime.Equal(b.Mtime) {
					return fmt.Errorf("standalone file %q must not be touched when the call ends as %s", p, e.outcome)
				}
			}
		default:
			if !exists || a.Data != b.Data || !a.Mtime.Equal(b.Mtime) {
				return fmt.Errorf("%q is neither addressed nor obsolete but was removed or written", p)
			}
		}
	}
	for p := range d1 {
		if _, ok := d0[p]; ok {
			continue
		}
		if p == cutRel && e.outcome == "added" {
			continue
		}
		return fmt.Errorf("%q was created although the mode table does not allow it (outcome %s)", p, e.outcome)
	}
	if e.outcome == "added" && !cutMulti {
		if _, ok := d1[cutRel]; !ok {
			return fmt.Errorf("call reported added but %q does not exist", cutRel)
		}
	}
	_ = res
	return nil
}

// escapeRuleLines: a whole line `---` of a value is stored as `/-/-/-/` in a multi-entry file (README).
func escapeRuleLines(v string) string {
	ls := strings.Split(v, "\n")
	for i, l := range ls {
		if l == "---" {
			ls[i] = "/-/-/-/"
		}
	}
	return strings.Join(ls, "\n")
}

func ids(es []Entry) []string {
	out := make([]string, len(es))
	for i, e := range es {
		out[i] = e.ID
	}
	return out
}

func classifyC05(c c05Cell) ([]string, bool) {
	e := expectC05(c)
	var cls []string
	nt := false
	if c.State == "missing" {
		cls = append(cls, "create_requested")
		nt = true
	}
	if c.State == "different" {
		cls = append(cls, "rewrite_requested")
		nt = true
	}
	if c.Obsolete {
		cls = append(cls, "delete_requested")
		nt = true
	}
	if c.Sort {
		cls = append(cls, "sort_requested")
		nt = true
	}
	if c.CI {
		cls = append(cls, "ci")
	}
	cls = append(cls, "outcome_"+e.outcome, "api_"+c.API)
	if c.Pre != "" {
		cls = append(cls, "preexisting_"+c.Pre)
	}
	if c.CIEnv != "" {
		cls = append(cls, "ci_detected_through_"+strings.SplitN(c.CIEnv, "=", 2)[0])
	}
	if c.ForeignCwd {
		cls = append(cls, "foreign_working_directory")
	}
	if c.Shuffle != "" {
		cls = append(cls, "test_shuffle")
	}
	if c.FailedBefore {
		cls = append(cls, "test_already_failed_before_the_call")
	}
	if c.Count2 {
		cls = append(cls, "count_2")
	}
	return cls, nt
}

func TestC05_ModeTable(t *testing.T) {
	seed, _ := strconv.Atoi(vhGetenv("VERIF_SEED", "1"))
	nshards, _ := strconv.Atoi(vhGetenv("VERIF_NSHARDS", "1"))
	shard, _ := strconv.Atoi(vhGetenv("VERIF_SHARD", "0"))
	reps := 1
	if tierThorough() {
		reps = 3
	}
	p := prop[c05Cell]{property: "C05", check: checkC05, classify: classifyC05}
	p.enumerate(t, func(yield func(c05Cell) bool) {
		for r := 0; r < reps; r++ {
			for i, c := range allC05Cells(seed + r*1000) {
				if i%nshards != shard {
					continue
				}
				if !yield(c) {
					return
				}
			}
		}
	})
}

// ---- sparse states: the run starts from (almost) nothing --------------------------------------------------------------
//
// The table above always has a populated snapshot directory. Here the directory is absent, exists but is EMPTY (created by
// a pipeline step, a Dockerfile, a wiped checkout), or the addressed multi-entry file holds only entries of tests that no
// longer exist (the tests were renamed and the snapshots not regenerated). The mode table is the same.

type c05Sparse struct {
	CI    bool   `json:"ci"`
	Opt   string `json:"update_option"`
	Upd   string `json:"update_snaps"`
	Sort  bool   `json:"sort"`
	API   string `json:"api"`
	Ext   string `json:"ext"`
	State string `json:"initial_state"` // no_dir | empty_dir | only_obsolete_entries
	Val   string `json:"value"`
}

func allC05Sparse(seed int) []c05Sparse {
	var cells []c05Sparse
	i := 0
	for _, ci := range []bool{false, true} {
		for _, opt := range []string{"unset", "true", "false"} {
			for _, upd := range []string{unsetEnv, "true", "clean", "false"} {
				for _, srt := range []bool{false, true} {
					for _, api := range []string{"snap", "json", "yaml", "ssnap", "sjson"} {
						for _, state := range []string{"no_dir", "empty_dir", "only_obsolete_entries"} {
							i++
							if state == "only_obsolete_entries" && (api == "ssnap" || api == "sjson") {
								continue // (a standalone call does not address the multi-entry file)
							}
							cells = append(cells, c05Sparse{CI: ci, Opt: opt, Upd: upd, Sort: srt, API: api, State: state,
								Ext: []string{"", "", ".txt"}[(i+seed)%3], Val: c05Value(api, seed*7919+i)})
						}
					}
				}
			}
		}
	}
	return cells
}

func checkC05Sparse(c c05Sparse) error {
	root, err := os.MkdirTemp(os.Getenv("VERIF_SCRATCH"), "c05s")
	if err != nil {
		return err
	}
	defer os.RemoveAll(root)
	dir := filepath.Join(root, "snaps")
	cfg := Cfg{Dir: strp(dir), Filename: "f", Ext: c.Ext}
	multi := c.API == "snap" || c.API == "json" || c.API == "yaml"
	if !multi {
		cfg.Filename = ""
	}
	switch c.Opt {
	case "true":
		cfg.Update = vhBoolp(true)
	case "false":
		cfg.Update = vhBoolp(false)
	}
	multiRel := filepath.Join("snaps", "f.snap"+c.Ext)
	cutRel := multiRel
	if !multi {
		ext := c.Ext
		if ext == "" && c.API == "sjson" {
			ext = ".json"
		}
		cutRel = filepath.Join("snaps", "TestAlpha_1.snap"+ext)
	}
	old := []Entry{{ID: "TestOld - 1", Body: "old one"}, {ID: "TestOld/sub - 1", Body: "old two\nline 2"}}
	switch c.State {
	case "empty_dir":
		os.MkdirAll(dir, 0o755)
	case "only_obsolete_entries":
		os.MkdirAll(dir, 0o755)
		var sb strings.Builder
		for _, e := range old {
			sb.WriteString("\n[" + e.ID + "]\n" + e.Body + "\n---\n")
		}
		os.WriteFile(filepath.Join(root, multiRel), []byte(sb.String()), 0o644)
	}
	ageDir(root)
	d0 := snapDir(root)
	run := Scenario{Tests: map[string]*Node{"TestAlpha": {Steps: []Step{{Op: "call", API: c.API, Cfg: cfg, Value: c.Val, Tag: "cut"}}}}, Clean: CleanSpec{Call: true, Sort: c.Sort}}
	res, out, err := runProgram(RunOpts{Pkg: ".", CI: c.CI, Upd: c.Upd, UpdSet: c.Upd != unsetEnv}, run)
	if err != nil {
		return fmt.Errorf("run: %v (%s)", err, vhClip(out))
	}
	d1 := snapDir(root)
	want := "failed"
	if !c.CI && c.Opt != "false" {
		want = "added"
	}
	if got := outcomeOfCall(res.byTag("cut")); got != want {
		return fmt.Errorf("call outcome %q, the mode table says %q (errors %v)", got, want, res.byTag("cut"))
	}
	if c.CI {
		if d := diffDirs(d0, d1, true); d != "" {
			return fmt.Errorf("on CI nothing may be created, modified or deleted, but: %s", d)
		}
		return nil
	}
	deletes := c.Upd == "true" || c.Upd == "clean"
	for p, b := range d0 {
		a, exists := d1[p]
		switch {
		case b.IsDir:
			if !exists {
				return fmt.Errorf("directory %q (state %s) was removed", p, c.State)
			}
		case p == multiRel:
			wantEntries := []Entry{}
			if !deletes {
				wantEntries = append(wantEntries, old...)
			}
			if want == "added" {
				wantEntries = append(wantEntries, Entry{ID: "TestAlpha - 1", Body: "\x00new"})
			}
			if c.Sort {
				sort.SliceStable(wantEntries, func(i, j int) bool { return vhNaturalCmp(wantEntries[i].ID, wantEntries[j].ID) < 0 })
			}
			if !exists {
				if len(wantEntries) == 0 {
					continue // every entry was obsolete and deleting is allowed: an emptied file may go as well
				}
				return fmt.Errorf("addressed file %q was removed; the mode table implies entries %v", p, ids(wantEntries))
			}
			post, perr := refParse(a.Data)
			if perr != nil && strings.TrimSpace(a.Data) != "" {
				return fmt.Errorf("file %q not well formed after the run: %v", p, perr)
			}
			if len(post) != len(wantEntries) {
				return fmt.Errorf("file %q: entries %s, the mode table implies ids %v (UPDATE_SNAPS=%q)", p, describe(post), ids(wantEntries), c.Upd)
			}
			for i := range post {
				if post[i].ID != wantEntries[i].ID || (wantEntries[i].Body != "\x00new" && post[i].Body != wantEntries[i].Body) {
					return fmt.Errorf("file %q: entries %s, the mode table implies ids %v with the old bodies", p, describe(post), ids(wantEntries))
				}
			}
			if !deletes && want != "added" && (a.Data != b.Data || !a.Mtime.Equal(b.Mtime)) {
				return fmt.Errorf("file %q: nothing in this mode may write it, but it was written", p)
			}
		default:
			if !exists || a.Data != b.Data {
				return fmt.Errorf("%q was removed or written", p)
			}
		}
	}
	for p, a := range d1 {
		if _, ok := d0[p]; ok {
			continue
		}
		if want == "added" && (p == cutRel || (a.IsDir && p == "snaps")) {
			continue
		}
		return fmt.Errorf("%q was created although the mode table does not allow it (outcome %s)", p, want)
	}
	if want == "added" {
		if _, ok := d1[cutRel]; !ok {
			return fmt.Errorf("call reported added but %q does not exist", cutRel)
		}
	}
	return nil
}

func classifyC05Sparse(c c05Sparse) ([]string, bool) {
	cls := []string{"initial_state_" + c.State, "api_" + c.API}
	if c.CI {
		cls = append(cls, "ci")
	}
	return cls, true
}

func TestC05_SparseStates(t *testing.T) {
	seed, _ := strconv.Atoi(vhGetenv("VERIF_SEED", "1"))
	nshards, _ := strconv.Atoi(vhGetenv("VERIF_NSHARDS", "1"))
	shard, _ := strconv.Atoi(vhGetenv("VERIF_SHARD", "0"))
	p := prop[c05Sparse]{property: "C05", check: checkC05Sparse, classify: classifyC05Sparse}
	p.enumerate(t, func(yield func(c05Sparse) bool) {
		for i, c := range allC05Sparse(seed) {
			if i%nshards != shard {
				continue
			}
			if !yield(c) {
				return
			}
		}
	})
}
