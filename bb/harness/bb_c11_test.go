//go:build verif

// C11 Snapshot location is a pure function of test file, test name and options.
package bbh

import (
	"fmt"
	"os"
	"path/filepath"
	"sort"
	"strconv"
	"strings"
	"testing"
	"unicode"

	"pgregory.net/rapid"
)

type c11Case struct {
	Pkg   string `json:"pkg"`
	Test  string `json:"test"` // top-level test function
	File  string `json:"file"` // the test file that declares it
	Steps []Step `json:"steps"`
	AbsID int    `json:"abs_dir_id"`
	// a second test function, declared in ANOTHER test file of the same package, run in the same process
	Test2  string `json:"test2,omitempty"`
	File2  string `json:"file2,omitempty"`
	Steps2 []Step `json:"steps2,omitempty"`
}

var c11Tests = []struct{ pkg, file, test string }{
	{".", "alpha_test.go", "TestAlpha"}, {".", "dotted.v2_test.go", "TestDotted"}, {".", "api.snapshot_test.go", "TestSnapApi"}, {".", "alpha_test.go", "TestAl"}, {".", "beta_test.go", "Test_x"}, {".", "gamma_test.go", "TestGamma2"},
	{"sub", "sub_test.go", "TestSub"}, {"sub", "sub_test.go", "TestSubAlpha"}, {"sub/deep/er", "er_test.go", "TestEr"}, {"sub/deep/er", "er_test.go", "TestAlpha"},
}

const absMarker = "@ABS@" // replaced by the per-run absolute directory

var deepTail = strings.Repeat("/a-rather-deep-directory-level", 8)

func rewriteName(s string) string {
	b := []byte{}
	for _, r := range s {
		switch {
		case unicode.IsSpace(r):
			b = append(b, '_')
		case !strconv.IsPrint(r):
			q := strconv.QuoteRune(r)
			b = append(b, q[1:len(q)-1]...)
		default:
			b = append(b, string(r)...)
		}
	}
	return string(b)
}

func genC11Cfg(t *rapid.T) Cfg {
	if rapid.IntRange(0, 4).Draw(t, "default") == 0 {
		return Cfg{Default: true}
	}
	c := Cfg{}
	switch rapid.IntRange(0, 8).Draw(t, "dir") {
	case 6: // explicitly empty (Dir(os.Getenv("GOLDEN_DIR")) with the variable unset): relative, so the test file's own directory
		c.Dir = strp("")
	case 7:
		c.Dir = strp(".")
	case 8: // a deep absolute directory: the whole path is longer than 259 bytes (no file NAME is near the 255 byte limit)
		c.Dir = strp(absMarker + deepTail)
	case 0:
		// unset
	case 1:
		c.Dir = strp("snapdir")
	case 2:
		c.Dir = strp("a/b/c")
	case 3:
		c.Dir = strp("../up")
	case 4:
		c.Dir = strp(absMarker)
	case 5:
		c.Dir = strp(rapid.SampledFrom([]string{"./dotted/../dotted", "50%_done/snaps", "My%20Project", "golden files ", " lead"}).Draw(t, "oddDir"))
	}
	c.Filename = rapid.SampledFrom([]string{"", "", "custom", "my.file", "with%percent", "ünï", "%d", "a b", "golden/user", "nested/deeper/name",
		"users.snap", "report.snap.txt", " pad", "pad ", "pad"}).Draw(t, "filename") // (a Filename is used as it is given: `.snap` inside, blanks at its edges)
	c.Ext = rapid.SampledFrom([]string{"", "", ".txt", ".json", ".snap", ".%s", ".v1 ", "_golden"}).Draw(t, "ext")
	return c
}

func genC11Steps(t *rapid.T, depth int) []Step {
	return genC11StepsAt(t, depth, true)
}

func genC11StepsAt(t *rapid.T, depth int, top bool) []Step {
	var steps []Step
	n := rapid.IntRange(1, 4).Draw(t, "nsteps")
	usedSubs := map[string]bool{}
	for i := 0; i < n; i++ {
		if depth > 0 && rapid.IntRange(0, 3).Draw(t, "sub") == 0 {
			name := rapid.SampledFrom([]string{"sub", "with space", "100% done", "a/b", "dots.and.more", "ünï", "x", "%d", "returns the paginated list of users when the caller is an administrator",
				"case: empty", "GET /users?id=1", "*.go", "quote\"d", "a<b>|c", "10:30"}).Draw(t, "subname")
			if usedSubs[name] {
				continue
			}
			usedSubs[name] = true
			if rapid.IntRange(0, 3).Draw(t, "suite") == 0 {
				// a subtest whose function lives in a NON-test file (a shared conformance suite): no *_test.go frame on its stack;
				// the "test file" of the statement is the file that declares the subtest function (suite.go)
				var inner []Step
				for _, st := range genC11StepsAt(t, 0, false) {
					if st.Shape == "closure" || st.Shape == "helper_same" {
						st.Shape = rapid.SampledFrom([]string{"direct", "helper_nontest", "helper_pkg"}).Draw(t, "suiteshape")
					}
					if st.Shape == "helper_testingfile" {
						st.Shape = "helper_pkg" // (the suite file has its own, smaller set of call shapes)
					}
					inner = append(inner, st)
				}
				steps = append(steps, Step{Op: "sub", Name: name, Suite: true, Steps: inner})
				continue
			}
			steps = append(steps, Step{Op: "sub", Name: name, Steps: genC11StepsAt(t, depth-1, false)})
			continue
		}
		api := rapid.SampledFrom([]string{"snap", "json", "yaml", "ssnap", "sjson"}).Draw(t, "api")
		val := map[string]string{"snap": "value", "ssnap": "value", "json": `{"a":1}`, "sjson": `{"a":1}`, "yaml": "a: 1\n"}[api]
		st := Step{Op: "call", API: api, Cfg: genC11Cfg(t), Value: val,
			Shape: rapid.SampledFrom([]string{"direct", "closure", "helper_same", "helper_nontest", "helper_pkg", "helper_testingfile"}).Draw(t, "shape"),
			Depth: rapid.SampledFrom([]int{0, 1, 2, 3, 3, 40, 100}).Draw(t, "depth")}
		if api != "snap" && api != "ssnap" && rapid.IntRange(0, 7).Draw(t, "rejected") == 0 {
			// a call that is rejected (input is not JSON / YAML): it is the k-th call of its test all the same
			st.Value, st.Tag = map[string]string{"json": "{not json", "sjson": "{not json", "yaml": "a: [1"}[api], "rejected"
		}
		if !top && (api == "ssnap" || api == "sjson") {
			// the k of "<Filename>_<k>" counts the calls of ONE test: with a fixed Filename two tests share file 1.
			// Only the top-level test uses a fixed Filename for standalone snapshots.
			st.Cfg.Filename = ""
		}
		steps = append(steps, st)
	}
	return steps
}

func genC11(t *rapid.T) c11Case {
	tt := rapid.SampledFrom(c11Tests).Draw(t, "test")
	c := c11Case{Pkg: tt.pkg, Test: tt.test, File: tt.file, Steps: genC11Steps(t, 2), AbsID: rapid.IntRange(0, 1).Draw(t, "absid")}
	if rapid.IntRange(0, 2).Draw(t, "second") == 0 {
		var others []struct{ pkg, file, test string }
		for _, o := range c11Tests {
			if o.pkg == tt.pkg && o.file != tt.file {
				others = append(others, o)
			}
		}
		if len(others) > 0 {
			o := rapid.SampledFrom(others).Draw(t, "test2")
			c.Test2, c.File2 = o.test, o.file
			// only multi-entry calls and default-named standalone calls: fixed Filenames of standalone snapshots belong to one test
			for _, st := range genC11StepsAt(t, 1, false) {
				c.Steps2 = append(c.Steps2, st)
			}
		}
	}
	return c
}

// expectedFiles: the statement's formula applied to every call (paths relative to the shard root = parent of the module).
func expectedC11(c c11Case, absDir string) (files map[string][]string) {
	files = map[string][]string{} // absolute path -> entry ids ("" for standalone)
	testDir := filepath.Join(scnRoot, c.Pkg)
	base := strings.TrimSuffix(c.File, ".go")
	multi := map[string]int{}
	solo := map[string]int{}
	var walk func(name string, steps []Step)
	walk = func(name string, steps []Step) {
		for _, st := range steps {
			switch st.Op {
			case "sub":
				if st.Suite {
					saved := base
					base = "suite"
					walk(name+"/"+rewriteName(st.Name), st.Steps)
					base = saved
					continue
				}
				walk(name+"/"+rewriteName(st.Name), st.Steps)
			case "call":
				dir := "__snapshots__"
				if st.Cfg.Dir != nil {
					dir = *st.Cfg.Dir
				}
				if strings.HasPrefix(dir, absMarker) {
					dir = absDir + dir[len(absMarker):]
				}
				if !filepath.IsAbs(dir) {
					dir = filepath.Join(testDir, dir)
				}
				standalone := st.API == "ssnap" || st.API == "sjson"
				ext := st.Cfg.Ext
				if standalone {
					fn := st.Cfg.Filename
					if fn == "" {
						fn = strings.ReplaceAll(name, "/", "_")
					}
					if ext == "" && st.API == "sjson" {
						ext = ".json"
					}
					pattern := filepath.Join(dir, fn+"_#.snap"+ext)
					solo[pattern]++
					if st.Tag == "rejected" {
						continue
					}
					p := filepath.Join(dir, fmt.Sprintf("%s_%d.snap%s", fn, solo[pattern], ext))
					files[p] = append(files[p], "")
					continue
				}
				fn := st.Cfg.Filename
				if fn == "" {
					fn = base
				}
				p := filepath.Join(dir, fn+".snap"+ext)
				multi[p+"\x00"+name]++
				if st.Tag == "rejected" {
					continue
				}
				files[p] = append(files[p], fmt.Sprintf("%s - %d", name, multi[p+"\x00"+name]))
			}
		}
	}
	walk(c.Test, c.Steps)
	if c.Test2 != "" {
		base = strings.TrimSuffix(c.File2, ".go")
		walk(c.Test2, c.Steps2)
	}
	return files
}

func substituteAbs(steps []Step, abs string) []Step {
	out := make([]Step, len(steps))
	for i, st := range steps {
		out[i] = st
		if st.Cfg.Dir != nil && strings.HasPrefix(*st.Cfg.Dir, absMarker) {
			out[i].Cfg.Dir = strp(abs + (*st.Cfg.Dir)[len(absMarker):])
		}
		out[i].Steps = substituteAbs(st.Steps, abs)
	}
	return out
}

func shardRoot() string { return filepath.Dir(scnRoot) }

// observedFiles: everything go-snaps created below the shard root (module copy, ../up, absolute dir).
func observedFiles() map[string]string {
	out := map[string]string{}
	filepath.Walk(shardRoot(), func(p string, info os.FileInfo, err error) error {
		if err != nil || info.IsDir() || initialFiles[p] {
			return nil
		}
		rel, _ := filepath.Rel(shardRoot(), p)
		mod := filepath.Base(scnRoot)
		if strings.HasPrefix(rel, mod+"/io") || strings.HasPrefix(rel, mod+"/bin") || strings.HasPrefix(rel, "foreign") {
			return nil
		}
		b, _ := os.ReadFile(p)
		out[p] = string(b)
		return nil
	})
	return out
}

func cleanShard() {
	cleanModule()
	for _, d := range []string{"up", "abs0", "abs1"} {
		os.RemoveAll(filepath.Join(shardRoot(), d))
	}
	// "../up" of nested packages
	os.RemoveAll(filepath.Join(scnRoot, "up"))
	os.RemoveAll(filepath.Join(scnRoot, "sub", "deep", "up"))
}

func checkC11(c c11Case) error {
	abs := filepath.Join(shardRoot(), fmt.Sprintf("abs%d", c.AbsID))
	want := expectedC11(c, abs)
	scn := Scenario{Tests: map[string]*Node{c.Test: {Steps: substituteAbs(c.Steps, abs)}}}
	if c.Test2 != "" {
		scn.Tests[c.Test2] = &Node{Steps: substituteAbs(c.Steps2, abs)}
	}
	foreign := filepath.Join(shardRoot(), "foreign")
	os.MkdirAll(foreign, 0o755)
	variants := []struct {
		name string
		opts RunOpts
	}{
		{"normal build, cwd = package dir", RunOpts{Pkg: c.Pkg}},
		{"normal build, foreign cwd", RunOpts{Pkg: c.Pkg, Cwd: foreign}},
		{"-trimpath build, cwd = package dir", RunOpts{Pkg: c.Pkg, Trim: true}},
		{"-trimpath build with GOFLAGS=-trimpath in the environment (as under `GOFLAGS=-trimpath go test`)", RunOpts{Pkg: c.Pkg, Trim: true, GoFlags: "-trimpath"}},
		{"normal build with unrelated GOFLAGS in the environment", RunOpts{Pkg: c.Pkg, GoFlags: "-mod=mod -count=1"}},
		{"-trimpath build with unrelated GOFLAGS in the environment", RunOpts{Pkg: c.Pkg, Trim: true, GoFlags: "-mod=mod"}},
		{"normal build, every test executed twice (-test.count=2): the second execution replays what the first created", RunOpts{Pkg: c.Pkg, Count: 2}},
		{"normal build, foreign cwd, GOFLAGS=-trimpath=false in the environment", RunOpts{Pkg: c.Pkg, Cwd: foreign, GoFlags: "-trimpath=false"}},
		{"normal build, foreign cwd, GOFLAGS=-gcflags=-trimpath=/src -mod=mod in the environment", RunOpts{Pkg: c.Pkg, Cwd: foreign, GoFlags: "-gcflags=-trimpath=/src -mod=mod"}},
	}
	for _, v := range variants {
		cleanShard()
		res, out, err := runProgram(v.opts, scn)
		if err != nil {
			return fmt.Errorf("%s: %v", v.name, err)
		}
		for _, cr := range res.Calls {
			if (len(cr.Errors) != 0) != (cr.Tag == "rejected") {
				return fmt.Errorf("%s: call in %s (%s) reported %q (output %s)", v.name, cr.Test, cr.Tag, cr.Errors, vhClip(out))
			}
		}
		got := observedFiles()
		var gotList, wantList []string
		for p := range got {
			gotList = append(gotList, p)
		}
		for p := range want {
			wantList = append(wantList, p)
		}
		sort.Strings(gotList)
		sort.Strings(wantList)
		if strings.Join(gotList, "\n") != strings.Join(wantList, "\n") {
			return fmt.Errorf("%s: snapshot files created:\n  %s\nthe location formula gives:\n  %s", v.name, strings.Join(relAll(gotList), "\n  "), strings.Join(relAll(wantList), "\n  "))
		}
		for p, ids := range want {
			if ids[0] == "" {
				if len(ids) != 1 {
					return fmt.Errorf("harness: two standalone calls mapped to %q", p)
				}
				continue
			}
			es, perr := refParse(got[p])
			if perr != nil {
				return fmt.Errorf("%s: %q not well formed: %v", v.name, p, perr)
			}
			var gotIDs []string
			for _, e := range es {
				gotIDs = append(gotIDs, e.ID)
			}
			wantIDs := append([]string{}, ids...)
			sort.Strings(gotIDs)
			sort.Strings(wantIDs)
			if strings.Join(gotIDs, "|") != strings.Join(wantIDs, "|") {
				return fmt.Errorf("%s: file %q holds entries %v, expected %v", v.name, p, gotIDs, wantIDs)
			}
		}
	}
	cleanShard()
	return nil
}

func relAll(ps []string) []string {
	out := make([]string, len(ps))
	for i, p := range ps {
		out[i], _ = filepath.Rel(shardRoot(), p)
	}
	return out
}

func classifyC11(c c11Case) ([]string, bool) {
	var cls []string
	nt := c.Pkg != "."
	if nt {
		cls = append(cls, "nested_package")
	}
	var walk func(steps []Step, depth int)
	walk = func(steps []Step, depth int) {
		for _, st := range steps {
			if st.Op == "sub" {
				cls = append(cls, "subtest")
				if st.Suite {
					cls = append(cls, "subtest_function_in_non_test_file")
				}
				if strings.ContainsAny(st.Name, "%/ ") {
					cls = append(cls, "special_subtest_name")
					nt = true
				}
				walk(st.Steps, depth+1)
				continue
			}
			if !st.Cfg.Default && (st.Cfg.Dir != nil || st.Cfg.Filename != "" || st.Cfg.Ext != "") {
				cls = append(cls, "non_default_location_option")
				nt = true
			}
			if st.Cfg.Dir != nil {
				switch {
				case *st.Cfg.Dir == "":
					cls = append(cls, "explicitly_empty_dir")
				case strings.HasPrefix(*st.Cfg.Dir, absMarker) && len(*st.Cfg.Dir) > len(absMarker):
					cls = append(cls, "absolute_dir", "path_longer_than_259_bytes")
				case *st.Cfg.Dir == absMarker:
					cls = append(cls, "absolute_dir")
				case strings.HasPrefix(*st.Cfg.Dir, ".."):
					cls = append(cls, "parent_relative_dir")
				default:
					cls = append(cls, "relative_dir")
				}
			}
			if strings.Contains(st.Cfg.Filename+st.Cfg.Ext, "%") {
				cls = append(cls, "percent_in_option")
				nt = true
			}
			cls = append(cls, "shape_"+st.Shape)
			if st.Shape != "direct" && st.Depth >= 2 {
				cls = append(cls, "helper_depth_ge_2")
				nt = true
			}
			if st.API == "ssnap" || st.API == "sjson" {
				cls = append(cls, "standalone")
			}
			if st.Tag == "rejected" {
				cls = append(cls, "rejected_call_consumes_its_ordinal")
			}
		}
	}
	walk(c.Steps, 0)
	if c.Test2 != "" {
		cls = append(cls, "two_test_files_in_one_process")
		walk(c.Steps2, 0)
	}
	cls = append(cls, "trimpath_and_foreign_cwd_variants")
	return uniqStrings(cls), true || nt
}

func uniqStrings(in []string) []string {
	seen := map[string]bool{}
	var out []string
	for _, s := range in {
		if !seen[s] {
			seen[s] = true
			out = append(out, s)
		}
	}
	return out
}

func TestC11_Location(t *testing.T) {
	prop[c11Case]{property: "C11", gen: genC11, check: checkC11, classify: classifyC11}.run(t)
}
