//go:build verif

// Black-box harness core: runs the compiled scenario program (real `testing` runner, real TestMain,
// real snaps.Clean) as a sub-process with a fully controlled environment.
package bbh

import (
	"bytes"
	"encoding/json"
	"fmt"
	"os"
	"os/exec"
	"path/filepath"
	"sort"
	"strings"
)

type Cfg struct {
	Default  bool    `json:"default,omitempty"`
	Dir      *string `json:"dir,omitempty"`
	Filename string  `json:"filename,omitempty"`
	Ext      string  `json:"ext,omitempty"`
	Update   *bool   `json:"update,omitempty"`
}

type Step struct {
	Op       string `json:"op"`
	API      string `json:"api,omitempty"`
	Cfg      Cfg    `json:"cfg,omitempty"`
	Value    string `json:"value,omitempty"`
	Shape    string `json:"shape,omitempty"`
	Depth    int    `json:"depth,omitempty"`
	Kind     string `json:"kind,omitempty"`
	Name     string `json:"name,omitempty"`
	Parallel bool   `json:"parallel,omitempty"`
	Steps    []Step `json:"steps,omitempty"`
	Tag      string `json:"tag,omitempty"`
	Suite    bool   `json:"suite,omitempty"`          // sub: the subtest function is declared in the non-test file suite.go of the package
	FromExec int    `json:"from_execution,omitempty"` // skip: only from this execution of the test on (-count)
}

type Node struct {
	Steps []Step `json:"steps"`
}

type CleanSpec struct {
	Call bool `json:"call"`
	Sort bool `json:"sort"`
}

type Scenario struct {
	Tests map[string]*Node `json:"tests"`
	Clean CleanSpec        `json:"clean"`
}

type CallResult struct {
	Test   string   `json:"test"`
	Tag    string   `json:"tag,omitempty"`
	API    string   `json:"api"`
	Errors []string `json:"errors"`
	Logs   []string `json:"logs"`
}

type Result struct {
	Started []string     `json:"started"`
	Calls   []CallResult `json:"calls"`
	Cleaned bool         `json:"cleaned"`
}

func (r Result) started(name string) bool {
	for _, s := range r.Started {
		if s == name {
			return true
		}
	}
	return false
}

func (r Result) byTag(tag string) *CallResult {
	for i := range r.Calls {
		if r.Calls[i].Tag == tag {
			return &r.Calls[i]
		}
	}
	return nil
}

// RunOpts: one execution of a scenario binary.
type RunOpts struct {
	Pkg     string `json:"pkg"`  // "." | "sub" | "sub/deep/er"
	Trim    bool   `json:"trim"` // binary built with -trimpath
	Cwd     string `json:"cwd"`  // "" = the package directory (what `go test` does)
	Run     string `json:"run"`  // -test.run
	Count   int    `json:"count"`
	Cpu     string `json:"cpu"` // -test.cpu
	CI      bool   `json:"ci"`
	CIEnv   string `json:"ci_env"` // with CI: the variable that makes the run a CI run (default CI=true), e.g. BUILD_NUMBER=17
	Upd     string `json:"update_snaps"`
	UpdSet  bool   `json:"update_snaps_set"`
	GoFlags string `json:"goflags"`           // GOFLAGS in the environment of the test process (as under `go test`)
	Shuffle string `json:"shuffle,omitempty"` // -test.shuffle (on | a seed)
}

var scnRoot = os.Getenv("VERIF_BB_SCN") // the scratch copy of the scenario module of this shard

func pkgDir(pkg string) string { return filepath.Join(scnRoot, pkg) }

func binPath(pkg string, trim bool) string {
	name := map[string]string{".": "root", "sub": "sub", "sub/deep/er": "er"}[pkg]
	if trim {
		name += "-trim"
	}
	return filepath.Join(scnRoot, "bin", name+".test")
}

var runSeq int

// runProgram executes the binary and returns what the program reported, its stdout and its exit error.
func runProgram(o RunOpts, s Scenario) (Result, string, error) {
	runSeq++
	tmp := filepath.Join(scnRoot, "io")
	os.MkdirAll(tmp, 0o755)
	scnFile := filepath.Join(tmp, fmt.Sprintf("scn-%d.json", runSeq))
	resFile := filepath.Join(tmp, fmt.Sprintf("res-%d.json", runSeq))
	defer os.Remove(scnFile)
	defer os.Remove(resFile)
	b, _ := json.Marshal(s)
	if err := os.WriteFile(scnFile, b, 0o644); err != nil {
		return Result{}, "", err
	}
	args := []string{"-test.count", fmt.Sprint(max(o.Count, 1))}
	if o.Run != "" {
		args = append(args, "-test.run", o.Run)
	}
	if o.Cpu != "" {
		args = append(args, "-test.cpu", o.Cpu)
	}
	if o.Shuffle != "" {
		args = append(args, "-test.shuffle", o.Shuffle)
	}
	cmd := exec.Command(binPath(o.Pkg, o.Trim), args...)
	cmd.Dir = o.Cwd
	if cmd.Dir == "" {
		cmd.Dir = pkgDir(o.Pkg)
	}
	// env -i: nothing of the caller's environment leaks into the program
	cmd.Env = []string{"PATH=/usr/bin:/bin", "HOME=" + tmp, "NO_COLOR=1", "VERIF_SCN=" + scnFile, "VERIF_RESULT=" + resFile}
	if o.CI {
		if o.CIEnv != "" {
			cmd.Env = append(cmd.Env, o.CIEnv)
		} else {
			cmd.Env = append(cmd.Env, "CI=true")
		}
	}
	if o.UpdSet {
		cmd.Env = append(cmd.Env, "UPDATE_SNAPS="+o.Upd)
	}
	if o.GoFlags != "" {
		cmd.Env = append(cmd.Env, "GOFLAGS="+o.GoFlags)
	}
	var out bytes.Buffer
	cmd.Stdout = &out
	cmd.Stderr = &out
	runErr := cmd.Run()
	var res Result
	rb, err := os.ReadFile(resFile)
	if err != nil {
		return res, out.String(), fmt.Errorf("program wrote no result (exit: %v): %s", runErr, vhClip(out.String()))
	}
	if err := json.Unmarshal(rb, &res); err != nil {
		return res, out.String(), err
	}
	return res, out.String(), nil
}

// initial layout of the module copy: everything else is created by go-snaps and removed between cases
var initialFiles = listAll(scnRoot)

func listAll(root string) map[string]bool {
	m := map[string]bool{}
	filepath.Walk(root, func(p string, info os.FileInfo, err error) error {
		if err == nil {
			m[p] = true
		}
		return nil
	})
	return m
}

func cleanModule() {
	var extra []string
	filepath.Walk(scnRoot, func(p string, info os.FileInfo, err error) error {
		if err == nil && !initialFiles[p] {
			extra = append(extra, p)
		}
		return nil
	})
	sort.Sort(sort.Reverse(sort.StringSlice(extra)))
	for _, p := range extra {
		os.RemoveAll(p)
	}
}

// created: files below root that are not part of the initial module layout (relative paths).
func createdFiles(root string) dirState {
	st := dirState{}
	filepath.Walk(root, func(p string, info os.FileInfo, err error) error {
		if err != nil || initialFiles[p] || strings.HasPrefix(p, filepath.Join(scnRoot, "io")) {
			return nil
		}
		rel, _ := filepath.Rel(root, p)
		if info.IsDir() {
			st[rel] = fileState{IsDir: true}
			return nil
		}
		b, _ := os.ReadFile(p)
		st[rel] = fileState{Data: string(b), Mode: info.Mode(), Mtime: info.ModTime()}
		return nil
	})
	return st
}

// ---- reference reading of multi-entry files (same grammar as the white-box reference model) ----------------

type Entry struct {
	ID   string
	Body string
}

func refParse(data string) ([]Entry, error) {
	if data == "" {
		return nil, nil
	}
	lines := strings.Split(data, "\n")
	if lines[len(lines)-1] != "" {
		return nil, fmt.Errorf("file does not end with a newline")
	}
	lines = lines[:len(lines)-1]
	var es []Entry
	for i := 0; i < len(lines); {
		l := lines[i]
		if l == "" {
			i++
			continue
		}
		if len(l) < 2 || l[0] != '[' || l[len(l)-1] != ']' {
			return es, fmt.Errorf("line %d: expected an entry header, found %q", i+1, vhClip(l))
		}
		id := l[1 : len(l)-1]
		i++
		start := i
		for i < len(lines) && lines[i] != "---" {
			i++
		}
		if i == len(lines) {
			return es, fmt.Errorf("entry %q is not terminated", id)
		}
		es = append(es, Entry{ID: id, Body: strings.Join(lines[start:i], "\n")})
		i++
	}
	return es, nil
}

func findEntry(es []Entry, id string) int {
	for i, e := range es {
		if e.ID == id {
			return i
		}
	}
	return -1
}

func describe(es []Entry) string {
	var parts []string
	for _, e := range es {
		parts = append(parts, fmt.Sprintf("[%s]=%q", e.ID, vhClip(e.Body)))
	}
	return strings.Join(parts, " ")
}

// summary lists (NO_COLOR)
type summaryLists struct {
	Files, Tests []string
	Raw          string
}

func parseSummaryLists(out string) summaryLists {
	s := summaryLists{Raw: out}
	section := ""
	for _, l := range strings.Split(out, "\n") {
		switch {
		case strings.HasPrefix(l, "› "):
			if strings.Contains(l, "snapshot file") {
				section = "files"
			} else {
				section = "tests"
			}
		case strings.HasPrefix(l, "  ↳") && strings.Contains(l, "• "):
			item := l[strings.Index(l, "• ")+len("• "):]
			if section == "files" {
				s.Files = append(s.Files, item)
			} else if section == "tests" {
				s.Tests = append(s.Tests, item)
			}
		}
	}
	return s
}

func vhNaturalCmp(a, b string) int {
	i, j := 0, 0
	isD := func(c byte) bool { return c >= '0' && c <= '9' }
	for i < len(a) && j < len(b) {
		if isD(a[i]) && isD(b[j]) {
			si, sj := i, j
			for i < len(a) && isD(a[i]) {
				i++
			}
			for j < len(b) && isD(b[j]) {
				j++
			}
			na, nb := strings.TrimLeft(a[si:i], "0"), strings.TrimLeft(b[sj:j], "0")
			if len(na) != len(nb) {
				if len(na) < len(nb) {
					return -1
				}
				return 1
			}
			if na != nb {
				if na < nb {
					return -1
				}
				return 1
			}
			continue
		}
		if a[i] != b[j] {
			if a[i] < b[j] {
				return -1
			}
			return 1
		}
		i++
		j++
	}
	switch {
	case i < len(a):
		return 1
	case j < len(b):
		return -1
	}
	return 0
}

func strp(s string) *string { return &s }
func vhBoolp(b bool) *bool    { return &b }
