//go:build verif

// C08 Clean keeps snapshots of tests that were skipped or filtered out.
// The real runner is the oracle for "which tests ran": the program reports it.
package bbh

import (
	"fmt"
	"os"
	"path/filepath"
	"regexp"
	"sort"
	"strings"
	"testing"

	"pgregory.net/rapid"
)

type c08Case struct {
	Tests    map[string][]Step `json:"tests"` // program: top-level test -> steps (no skip steps)
	Skips    []string          `json:"skips"` // "TestA/sub@2:Skipf" : test name, step index before which snaps.Skip* is called, kind
	Run      string            `json:"run"`   // -test.run
	Upd      string            `json:"update_snaps"`
	Sort     bool              `json:"sort"`
	Stale    []string          `json:"stale_entries"`           // "cfgkind|id": extra stale entries inserted into recorded files
	NoExempt bool              `json:"no_exemptions,omitempty"` // probes: do not exempt the known findings
}

var c08Pool = []struct{ file, test string }{
	{"alpha_test.go", "TestAlpha"}, {"alpha_test.go", "TestAlphaBeta"}, {"alpha_test.go", "TestAl"},
	{"beta_test.go", "TestBeta"}, {"beta_test.go", "TestB"}, {"beta_test.go", "Test_x"},
	{"gamma_test.go", "TestGamma"}, {"gamma_test.go", "TestGamma2"},
	{"api.snapshot_test.go", "TestSnapApi"},
}

func fileOfTest(top string) string {
	for _, p := range c08Pool {
		if p.test == top {
			return p.file
		}
	}
	return ""
}

// function declarations of the generated test files (see lib/bbscn.py)
func funcDecls(file string) []string {
	suf := map[string]string{"alpha_test.go": "Alpha", "beta_test.go": "Beta", "gamma_test.go": "Gamma", "dotted.v2_test.go": "DottedV2", "api.snapshot_test.go": "ApiSnapshot"}[file]
	out := []string{"run" + suf, "interp" + suf, "call" + suf, "helperSame" + suf, "direct" + suf}
	for _, p := range c08Pool {
		if p.file == file {
			out = append(out, p.test)
		}
	}
	if file == "beta_test.go" {
		out = append(out, "utilGammaHelper")
	}
	if file == "dotted.v2_test.go" {
		out = append(out, "TestDotted")
	}
	return out
}

var c08Cfgs = map[string]Cfg{
	"default": {Default: true},
	"shared":  {Filename: "shared"},
	"ext":     {Ext: ".txt"},
	// a file named like the default file of alpha_test.go, used by tests of every test file (snaps.Filename("alpha_test"),
	// or - the same thing on disk - a helper in alpha_test.go through which the other files' tests take their snapshots)
	"alphafile": {Filename: "alpha_test"},
}

func genC08Steps(t *rapid.T, depth int, subPool []string) []Step {
	var steps []Step
	n := rapid.IntRange(1, 3).Draw(t, "nsteps")
	used := map[string]bool{}
	for i := 0; i < n; i++ {
		if depth > 0 && rapid.IntRange(0, 2).Draw(t, "sub") == 0 {
			name := rapid.SampledFrom(subPool).Draw(t, "subname")
			if used[name] {
				continue
			}
			used[name] = true
			steps = append(steps, Step{Op: "sub", Name: name, Steps: genC08Steps(t, depth-1, subPool)})
			continue
		}
		api := rapid.SampledFrom([]string{"snap", "snap", "json", "ssnap", "sjson"}).Draw(t, "api")
		kind := rapid.SampledFrom([]string{"default", "shared", "shared", "ext", "alphafile"}).Draw(t, "cfgkind")
		if (kind == "shared" || kind == "alphafile") && (api == "ssnap" || api == "sjson") {
			kind = "default" // a fixed Filename for standalone snapshots is one file sequence shared by every test: out of domain here
		}
		val := map[string]string{"snap": "value", "ssnap": "standalone value", "json": `{"a":1}`, "sjson": `{"a":1}`}[api]
		steps = append(steps, Step{Op: "call", API: api, Cfg: c08Cfgs[kind], Value: val, Tag: kind})
	}
	return steps
}

var c08RunPool = []string{"", "", "", "TestSnapApi", "Snap", "TestAlpha", "Alpha", "Al", "TestB", "B", "Beta", "Gamma", "TestGamma2", "2", "TestAlpha|TestGamma", "^TestAlpha$", "^TestB$", "TestAlpha/sub1", "Alpha/s", "sub1", "Sub", "TestAl/", "Test_x", "x", "TestBeta/sub2/deep", "/sub1", "TestA.*a$",
	// groups of three and more alternatives (a hand-typed list, a CI test splitter): the middle ones are bare literals
	"^(TestAlpha|TestB|TestGamma)$", "^(TestGamma|TestAl|TestSnapApi)$", "^(TestAl|TestGamma|TestB)$", "^(TestAlpha|TestGamma|TestB)$/^(sub1|Sub|sub2)$"}

func allNames(tests map[string][]Step) []string {
	var out []string
	var walk func(name string, steps []Step)
	walk = func(name string, steps []Step) {
		out = append(out, name)
		for _, st := range steps {
			if st.Op == "sub" {
				walk(name+"/"+rewriteName(st.Name), st.Steps)
			}
		}
	}
	for top, steps := range tests {
		walk(top, steps)
	}
	sort.Strings(out)
	return out
}

func stepsOf(tests map[string][]Step, name string) []Step {
	parts := strings.Split(name, "/")
	steps := tests[parts[0]]
	for _, p := range parts[1:] {
		found := false
		for _, st := range steps {
			if st.Op == "sub" && rewriteName(st.Name) == p {
				steps = st.Steps
				found = true
				break
			}
		}
		if !found {
			return nil
		}
	}
	return steps
}

func genC08(t *rapid.T) c08Case {
	c := c08Case{Tests: map[string][]Step{}}
	subPool := []string{"sub1", "sub2", "Sub", "deep", "s", "2", "Alpha", "sub1.1", "sub1-b", "/lead", "../rel"}
	ntests := rapid.IntRange(2, 5).Draw(t, "ntests")
	perm := rapid.Permutation(vhIndices(len(c08Pool))).Draw(t, "tests")
	for _, i := range perm[:ntests] {
		c.Tests[c08Pool[i].test] = genC08Steps(t, 2, subPool)
	}
	names := allNames(c.Tests)
	for i := rapid.IntRange(0, 4).Draw(t, "nskips"); i > 0; i-- {
		name := rapid.SampledFrom(names).Draw(t, "skipname")
		if _, dup := skipPoint(c.Skips, name); dup {
			continue
		}
		n := len(stepsOf(c.Tests, name))
		c.Skips = append(c.Skips, fmt.Sprintf("%s@%d:%s", name, rapid.IntRange(0, n).Draw(t, "skipat"), rapid.SampledFrom([]string{"Skip", "Skipf", "SkipNow"}).Draw(t, "skipkind")))
	}
	c.Run = rapid.SampledFrom(c08RunPool).Draw(t, "run")
	if rapid.IntRange(0, 2).Draw(t, "derivedrun") == 0 {
		// a pattern typed after the name of one test of THIS program: elements anchored at the end, at both ends, quoted or
		// not, cut short, the last element alone (which tests it selects is decided by the real runner)
		els := strings.Split(rapid.SampledFrom(names).Draw(t, "runname"), "/")
		q := func(e string) string {
			if rapid.Bool().Draw(t, "quotemeta") {
				return regexp.QuoteMeta(e)
			}
			return e
		}
		switch rapid.IntRange(0, 4).Draw(t, "runform") {
		case 0:
			for i := range els {
				els[i] = q(els[i])
			}
			c.Run = strings.Join(els, "/") + "$"
		case 1:
			for i := range els {
				els[i] = "^" + q(els[i]) + "$"
			}
			c.Run = strings.Join(els, "/")
		case 2:
			last := els[len(els)-1]
			els[len(els)-1] = q(last[:rapid.IntRange(1, len(last)).Draw(t, "cut")]) + "$"
			c.Run = strings.Join(els, "/")
		case 3:
			c.Run = "/" + q(els[len(els)-1]) + "$"
		default:
			for i := range els {
				els[i] = q(els[i])
			}
			c.Run = strings.Join(els, "/")
		}
	}
	c.Upd = rapid.SampledFrom([]string{"", "clean", "clean", "true"}).Draw(t, "upd")
	c.Sort = rapid.Bool().Draw(t, "sort")
	// stale entries of existing tests (ordinal beyond their calls) and of prefix siblings
	for i := rapid.IntRange(0, 3).Draw(t, "nstale"); i > 0; i-- {
		base := rapid.SampledFrom(names).Draw(t, "stalename")
		name := base
		switch rapid.IntRange(0, 3).Draw(t, "stalerel") {
		case 0:
			name = base + "X" // sibling that merely shares the prefix
		case 1:
			name = base + "/child"
		}
		c.Stale = append(c.Stale, fmt.Sprintf("%s|%s - %d", rapid.SampledFrom([]string{"default", "shared"}).Draw(t, "stalecfg"), name, rapid.IntRange(7, 9).Draw(t, "staleord")))
	}
	return c
}

func vhIndices(n int) []int {
	out := make([]int, n)
	for i := range out {
		out[i] = i
	}
	return out
}

type slot struct {
	owner string // test name
	file  string // absolute path
	id    string // entry id, "" = standalone file
	index int    // step index inside the owner's steps
}

// programSlots: where the statement (C11) says every call of the program stores its snapshot.
func programSlots(tests map[string][]Step) []slot {
	var out []slot
	dir := filepath.Join(scnRoot, "__snapshots__")
	multi := map[string]int{}
	solo := map[string]int{}
	var walk func(top, name string, steps []Step)
	walk = func(top, name string, steps []Step) {
		base := strings.TrimSuffix(fileOfTest(top), ".go")
		for i, st := range steps {
			switch st.Op {
			case "sub":
				walk(top, name+"/"+rewriteName(st.Name), st.Steps)
			case "call":
				ext := st.Cfg.Ext
				if st.API == "ssnap" || st.API == "sjson" {
					fn := st.Cfg.Filename
					if fn == "" {
						fn = strings.ReplaceAll(name, "/", "_")
					}
					if ext == "" && st.API == "sjson" {
						ext = ".json"
					}
					pat := filepath.Join(dir, fn+"_#.snap"+ext)
					solo[pat]++
					out = append(out, slot{owner: name, file: filepath.Join(dir, fmt.Sprintf("%s_%d.snap%s", fn, solo[pat], ext)), index: i})
					continue
				}
				fn := st.Cfg.Filename
				if fn == "" {
					fn = base
				}
				p := filepath.Join(dir, fn+".snap"+ext)
				multi[p+"\x00"+name]++
				out = append(out, slot{owner: name, file: p, id: fmt.Sprintf("%s - %d", name, multi[p+"\x00"+name]), index: i})
			}
		}
	}
	var tops []string
	for top := range tests {
		tops = append(tops, top)
	}
	sort.Strings(tops)
	for _, top := range tops {
		walk(top, top, tests[top])
	}
	return out
}

func withSkips(tests map[string][]Step, skips []string) map[string]*Node {
	type sk struct {
		at   int
		kind string
	}
	byName := map[string]sk{}
	for _, s := range skips {
		at := strings.LastIndex(s, "@")
		colon := strings.LastIndex(s, ":")
		var n int
		fmt.Sscanf(s[at+1:colon], "%d", &n)
		byName[s[:at]] = sk{n, s[colon+1:]}
	}
	var build func(name string, steps []Step) []Step
	build = func(name string, steps []Step) []Step {
		var out []Step
		for i, st := range steps {
			if k, ok := byName[name]; ok && k.at == i {
				out = append(out, Step{Op: "skip", Kind: k.kind})
			}
			if st.Op == "sub" {
				st.Steps = build(name+"/"+rewriteName(st.Name), st.Steps)
			}
			out = append(out, st)
		}
		if k, ok := byName[name]; ok && k.at >= len(steps) {
			out = append(out, Step{Op: "skip", Kind: k.kind})
		}
		return out
	}
	res := map[string]*Node{}
	for top, steps := range tests {
		res[top] = &Node{Steps: build(top, steps)}
	}
	return res
}

func skipPoint(skips []string, name string) (int, bool) {
	for _, s := range skips {
		at := strings.LastIndex(s, "@")
		colon := strings.LastIndex(s, ":")
		if s[:at] == name {
			var n int
			fmt.Sscanf(s[at+1:colon], "%d", &n)
			return n, true
		}
	}
	return 0, false
}

func checkC08(c c08Case) error {
	cleanModule()
	defer cleanModule()
	dir := filepath.Join(scnRoot, "__snapshots__")
	plain := map[string]*Node{}
	for top, steps := range c.Tests {
		plain[top] = &Node{Steps: steps}
	}
	// step 1: record the whole program
	if _, out, err := runProgram(RunOpts{Pkg: "."}, Scenario{Tests: plain}); err != nil {
		return fmt.Errorf("recording run: %v (%s)", err, vhClip(out))
	}
	slots := programSlots(c.Tests)
	for _, s := range slots {
		if _, err := os.Stat(s.file); err != nil {
			return fmt.Errorf("harness/location: recording did not create %q for %s", s.file, s.owner)
		}
	}
	// stale entries
	staleIDs := map[string][]string{} // file -> ids
	for _, s := range c.Stale {
		bar := strings.Index(s, "|")
		kind, id := s[:bar], s[bar+1:]
		file := filepath.Join(dir, "alpha_test.snap")
		if kind == "shared" {
			file = filepath.Join(dir, "shared.snap")
		}
		b, err := os.ReadFile(file)
		if err != nil {
			continue
		}
		if es, _ := refParse(string(b)); findEntry(es, id) >= 0 {
			continue
		}
		os.WriteFile(file, append(b, []byte("\n["+id+"]\nstale body\n---\n")...), 0o644)
		staleIDs[file] = append(staleIDs[file], id)
	}
	ageDir(scnRoot)
	before := createdFiles(scnRoot)

	// step 2
	res, out, err := runProgram(RunOpts{Pkg: ".", Run: c.Run, Upd: c.Upd, UpdSet: c.Upd != ""},
		Scenario{Tests: withSkips(c.Tests, c.Skips), Clean: CleanSpec{Call: true, Sort: c.Sort}})
	if err != nil {
		return fmt.Errorf("run: %v (%s)", err, vhClip(out))
	}
	after := createdFiles(scnRoot)
	sum := parseSummaryLists(out)
	listedFiles := map[string]bool{}
	for _, f := range sum.Files {
		listedFiles[f] = true
	}
	listedIDs := map[string]int{}
	for _, id := range sum.Tests {
		listedIDs[id]++
	}
	var pattern *regexp.Regexp
	if c.Run != "" {
		pattern, _ = regexp.Compile(c.Run)
	}

	// which slots were addressed in step 2 / which are owned by tests that did not run
	skippedBySnaps := func(name string) bool { // name or an ancestor called snaps.Skip*
		for _, s := range c.Skips {
			sn := s[:strings.LastIndex(s, "@")]
			if (name == sn || strings.HasPrefix(name, sn+"/")) && res.started(sn) {
				return true
			}
		}
		return false
	}
	addressedFile := map[string]bool{}
	notRun := []slot{}
	for _, s := range slots {
		ran := res.started(s.owner)
		if ran {
			if p, ok := skipPoint(c.Skips, s.owner); ok && s.index >= p {
				ran = false
			}
		}
		// a call that comes after a sub-test which itself ... still runs; calls after the owner's skip point do not
		if ran {
			addressedFile[s.file] = true
		} else {
			notRun = append(notRun, s)
		}
	}
	col := getCollector("C08", "TestC08_SkippedAndFiltered")
	rel := func(p string) string { r, _ := filepath.Rel(scnRoot, p); return r }
	for _, s := range notRun {
		bySkip := skippedBySnaps(s.owner)
		preData, existed := before[rel(s.file)]
		if !existed {
			continue
		}
		postData, exists := after[rel(s.file)]
		lost := ""
		if s.id == "" || !addressedFile[s.file] {
			// the item is a file nobody addressed in this run
			switch {
			case !exists:
				lost = fmt.Sprintf("file %q (owner %s did not run) was deleted", rel(s.file), s.owner)
			case listedFiles[s.file]:
				lost = fmt.Sprintf("file %q (owner %s did not run) is listed as obsolete", rel(s.file), s.owner)
			case postData.Data != preData.Data:
				lost = fmt.Sprintf("file %q (owner %s did not run) was modified", rel(s.file), s.owner)
			}
			if lost == "" {
				col.bump("kept_file_of_not_run_test")
				continue
			}
			// known findings (file level)
			known := ""
			base := filepath.Base(s.file)
			defaultNamed := strings.HasSuffix(base, "_test.snap")
			switch {
			case bySkip:
				known = "K2"
			case pattern != nil && !defaultNamed:
				known = "K4"
			case pattern != nil && defaultNamed:
				for _, fn := range funcDecls(strings.TrimSuffix(base, ".snap") + ".go") {
					if pattern.MatchString(fn) {
						known = "K5"
					}
				}
			}
			if known != "" && !c.NoExempt {
				col.exclude(known + " (known finding, probed separately)")
				continue
			}
			return fmt.Errorf("[%s] %s; run=%q skips=%v UPDATE_SNAPS=%q", known, lost, c.Run, c.Skips, c.Upd)
		}
		// the item is an entry of a file that other tests addressed
		pre, _ := refParse(preData.Data)
		if !exists {
			return fmt.Errorf("[] addressed file %q disappeared", rel(s.file))
		}
		post, perr := refParse(postData.Data)
		if perr != nil {
			return fmt.Errorf("[] file %q not well formed after Clean: %v", rel(s.file), perr)
		}
		i, j := findEntry(pre, s.id), findEntry(post, s.id)
		switch {
		case i < 0:
			continue
		case j < 0:
			lost = fmt.Sprintf("entry %q of %q (its test did not run) was removed", s.id, rel(s.file))
		case post[j].Body != pre[i].Body:
			lost = fmt.Sprintf("entry %q of %q (its test did not run) was altered", s.id, rel(s.file))
		case listedIDs[s.id] > 0 && !vhContains(staleIDs[s.file], s.id):
			lost = fmt.Sprintf("entry %q (its test did not run) is listed as obsolete", s.id)
		}
		if lost == "" {
			col.bump("kept_entry_of_not_run_test")
			continue
		}
		known := ""
		if !bySkip && pattern != nil && pattern.MatchString(s.id) {
			known = "K3"
		}
		if known != "" && !c.NoExempt {
			col.exclude(known + " (known finding, probed separately)")
			continue
		}
		return fmt.Errorf("[%s] %s; run=%q skips=%v UPDATE_SNAPS=%q", known, lost, c.Run, c.Skips, c.Upd)
	}

	// converse: without -run, stale entries in addressed files must be reported unless their test is skip-protected;
	// a skip protects exactly that test and its descendants, not siblings sharing the name prefix
	if c.Run == "" {
		for file, idsOf := range staleIDs {
			if !addressedFile[file] {
				continue
			}
			for _, id := range idsOf {
				name := id[:strings.LastIndex(id, " - ")]
				protected := false
				for _, s := range c.Skips {
					sn := s[:strings.LastIndex(s, "@")]
					if res.started(sn) && (name == sn || strings.HasPrefix(name, sn+"/")) {
						protected = true
					}
				}
				post, _ := refParse(after[rel(file)].Data)
				present := findEntry(post, id) >= 0
				deletes := c.Upd == "clean" || c.Upd == "true"
				switch {
				case protected && (!present || listedIDs[id] > 0):
					return fmt.Errorf("[] stale-looking entry %q belongs to a skip-protected test but was removed or listed", id)
				case !protected && listedIDs[id] == 0:
					return fmt.Errorf("[] entry %q is stale and its test is not skip-protected (skips %v protect only the test and its descendants) but it is not reported", id, c.Skips)
				case !protected && deletes && present:
					return fmt.Errorf("[] entry %q is stale, reported, clean mode, but still present", id)
				case !protected && !deletes && !present:
					return fmt.Errorf("[] entry %q was removed outside clean mode", id)
				}
				col.bump("converse_checked")
			}
		}
	}
	return nil
}

func vhContains(ss []string, s string) bool {
	for _, x := range ss {
		if x == s {
			return true
		}
	}
	return false
}

func knownC08(c c08Case, err error) string {
	m := err.Error()
	if strings.HasPrefix(m, "[K") && len(m) > 4 {
		return m[1:3]
	}
	return ""
}

func classifyC08(c c08Case) ([]string, bool) {
	var cls []string
	if len(c.Skips) > 0 {
		cls = append(cls, "skip")
	}
	if c.Run != "" {
		cls = append(cls, "run_filter")
		if strings.Contains(c.Run, "/") {
			cls = append(cls, "multi_level_pattern")
		}
		if strings.Contains(c.Run, "|") {
			cls = append(cls, "alternation")
		}
		if strings.ContainsAny(c.Run, "^$") {
			cls = append(cls, "anchors")
		}
	}
	if c.Upd != "" {
		cls = append(cls, "clean_mode")
	}
	if len(c.Stale) > 0 {
		cls = append(cls, "stale_entries")
	}
	shared := false
	for _, steps := range c.Tests {
		var walk func([]Step)
		walk = func(ss []Step) {
			for _, st := range ss {
				if st.Tag == "shared" {
					shared = true
				}
				walk(st.Steps)
			}
		}
		walk(steps)
	}
	if shared {
		cls = append(cls, "shared_file")
	}
	return cls, len(c.Skips) > 0 || c.Run != ""
}

func TestC08_SkippedAndFiltered(t *testing.T) {
	prop[c08Case]{property: "C08", gen: genC08, check: checkC08, classify: classifyC08, known: knownC08}.run(t)
}

// ---- probes for the known findings K2..K5: minimal programs of exactly that class, exemptions switched off -----

func probe(t *testing.T, c c08Case) {
	c.NoExempt = true
	prop[c08Case]{property: "C08", check: checkC08, classify: classifyC08, known: knownC08}.enumerate(t, func(yield func(c08Case) bool) { yield(c) })
}

func call(api, kind string) Step {
	val := map[string]string{"snap": "value", "ssnap": "standalone value", "json": `{"a":1}`, "sjson": `{"a":1}`}[api]
	return Step{Op: "call", API: api, Cfg: c08Cfgs[kind], Value: val, Tag: kind}
}

// K2: a skipped test is the only owner of a file
func TestC08K2_SoleOwnerSkipped(t *testing.T) {
	probe(t, c08Case{Tests: map[string][]Step{"TestAlpha": {call("snap", "default")}, "TestBeta": {call("snap", "default"), call("ssnap", "default")}},
		Skips: []string{"TestBeta@0:Skip"}, Upd: "clean"})
}

// K3: -run is applied as one regexp to the whole entry id
func TestC08K3_WholeIDRegexp(t *testing.T) {
	probe(t, c08Case{Tests: map[string][]Step{"TestAlpha": {call("snap", "shared")}, "TestBeta": {{Op: "sub", Name: "Alpha", Steps: []Step{call("snap", "shared")}}}},
		Run: "Alpha", Upd: "clean"})
}

// K4: files with non-default names of filtered-out tests
func TestC08K4_NonDefaultNames(t *testing.T) {
	probe(t, c08Case{Tests: map[string][]Step{"TestAlpha": {call("snap", "default")}, "TestBeta": {call("ssnap", "default"), call("snap", "ext")}},
		Run: "TestAlpha", Upd: "clean"})
}

// K5: any function declaration of the source file matching the pattern un-protects the file
func TestC08K5_FileHeuristic(t *testing.T) {
	probe(t, c08Case{Tests: map[string][]Step{"TestGamma": {call("snap", "default")}, "TestBeta": {call("snap", "default")}},
		Run: "Gamma", Upd: "clean"})
}

// ---- -count=N where a test only skips in a LATER execution ------------------------------------------------------------
//
// Every test of the program runs N times. A resource that is gone after the first run (a port, a schema that can be
// migrated once per process) makes a test call snaps.Skip* only from its k-th execution on. It is a skipped test all
// the same: whatever it recorded earlier stays. All tests store into one shared multi-entry file which the first test
// always addresses (no sole-owner situation, K2), no -run filter (K3-K5).

type c08LaterCase struct {
	Count    int    `json:"count"`
	NAlpha   int    `json:"calls_of_TestAlpha"`
	NBeta    int    `json:"calls_of_TestBeta"`
	BetaSub  bool   `json:"TestBeta_has_a_sub_test_after_its_calls"`
	SkipAt   int    `json:"TestBeta_skips_before_step"`
	FromExec int    `json:"from_execution"`
	Kind     string `json:"kind"`
	// AlwaysSkipper: another test (TestAl, sorts before TestAlpha) that calls snaps.Skip in EVERY execution, before its calls
	AlwaysSkipper bool   `json:"another_test_skips_in_every_execution"`
	GammaFrom     int    `json:"TestGamma_skips_at_its_start_from_execution,omitempty"`
	Upd           string `json:"update_snaps"`
	Sort          bool   `json:"sort"`
}

func genC08Later(t *rapid.T) c08LaterCase {
	c := c08LaterCase{Count: rapid.IntRange(2, 3).Draw(t, "count"), NAlpha: rapid.IntRange(1, 3).Draw(t, "nalpha"), NBeta: rapid.IntRange(1, 3).Draw(t, "nbeta"),
		BetaSub: rapid.Bool().Draw(t, "betasub"), Kind: rapid.SampledFrom([]string{"Skip", "Skipf", "SkipNow", "SkipBare"}).Draw(t, "kind"),
		AlwaysSkipper: rapid.Bool().Draw(t, "always"), Upd: rapid.SampledFrom([]string{"", "clean", "clean", "true"}).Draw(t, "upd"), Sort: rapid.Bool().Draw(t, "sort")}
	c.SkipAt = rapid.IntRange(0, c.NBeta).Draw(t, "skipat")
	c.FromExec = rapid.IntRange(2, c.Count).Draw(t, "fromexec")
	if rapid.Bool().Draw(t, "gamma") {
		c.GammaFrom = rapid.IntRange(2, c.Count).Draw(t, "gammafrom")
	}
	return c
}

func checkC08Later(c c08LaterCase) error {
	cleanModule()
	defer cleanModule()
	shared := func(v string) Step {
		return Step{Op: "call", API: "snap", Cfg: c08Cfgs["shared"], Value: v, Tag: "shared"}
	}
	build := func(withSkips bool) map[string]*Node {
		tests := map[string]*Node{}
		var alpha []Step
		for i := 0; i < c.NAlpha; i++ {
			alpha = append(alpha, shared(fmt.Sprintf("alpha %d", i)))
		}
		tests["TestAlpha"] = &Node{Steps: alpha}
		var beta []Step
		for i := 0; i < c.NBeta; i++ {
			if withSkips && i == c.SkipAt {
				beta = append(beta, Step{Op: "skip", Kind: c.Kind, FromExec: c.FromExec})
			}
			beta = append(beta, shared(fmt.Sprintf("beta %d", i)))
		}
		if withSkips && c.SkipAt >= c.NBeta {
			beta = append(beta, Step{Op: "skip", Kind: c.Kind, FromExec: c.FromExec})
		}
		if c.BetaSub {
			beta = append(beta, Step{Op: "sub", Name: "sub1", Steps: []Step{shared("beta sub")}})
		}
		tests["TestBeta"] = &Node{Steps: beta}
		if c.AlwaysSkipper {
			var al []Step
			if withSkips {
				al = append(al, Step{Op: "skip", Kind: "Skip"})
			}
			tests["TestAl"] = &Node{Steps: append(al, shared("al 0"), shared("al 1"))}
		}
		if c.GammaFrom > 0 {
			var g []Step
			if withSkips {
				g = append(g, Step{Op: "skip", Kind: "SkipNow", FromExec: c.GammaFrom})
			}
			tests["TestGamma"] = &Node{Steps: append(g, shared("gamma 0"), Step{Op: "sub", Name: "deep", Steps: []Step{shared("gamma deep")}})}
		}
		return tests
	}
	if _, out, err := runProgram(RunOpts{Pkg: "."}, Scenario{Tests: build(false)}); err != nil {
		return fmt.Errorf("recording run: %v (%s)", err, vhClip(out))
	}
	file := filepath.Join(scnRoot, "__snapshots__", "shared.snap")
	b0, err := os.ReadFile(file)
	if err != nil {
		return fmt.Errorf("harness: %v", err)
	}
	pre, perr := refParse(string(b0))
	if perr != nil {
		return fmt.Errorf("harness: recorded file: %v", perr)
	}
	ageDir(scnRoot)
	_, out, err := runProgram(RunOpts{Pkg: ".", Count: c.Count, Upd: c.Upd, UpdSet: c.Upd != ""}, Scenario{Tests: build(true), Clean: CleanSpec{Call: true, Sort: c.Sort}})
	if err != nil {
		return fmt.Errorf("run: %v (%s)", err, vhClip(out))
	}
	sum := parseSummaryLists(out)
	if len(sum.Tests) > 0 || len(sum.Files) > 0 {
		return fmt.Errorf("every test of the program ran or called snaps.Skip* in this process (-count=%d), but Clean lists obsolete items: tests %q files %q", c.Count, sum.Tests, sum.Files)
	}
	b1, err := os.ReadFile(file)
	if err != nil {
		return fmt.Errorf("the shared file was deleted: %v", err)
	}
	post, perr := refParse(string(b1))
	if perr != nil {
		return fmt.Errorf("shared file not well formed after the run: %v", perr)
	}
	for _, e := range pre {
		j := findEntry(post, e.ID)
		if j < 0 {
			return fmt.Errorf("entry %q was recorded by a test that ran or was skipped through snaps.%s in a later execution (-count=%d, UPDATE_SNAPS=%q): Clean removed it", e.ID, c.Kind, c.Count, c.Upd)
		}
		if post[j].Body != e.Body {
			return fmt.Errorf("entry %q changed: %q -> %q", e.ID, e.Body, post[j].Body)
		}
	}
	if len(post) != len(pre) {
		return fmt.Errorf("entries %v became %v", ids(pre), ids(post))
	}
	return nil
}

func classifyC08Later(c c08LaterCase) ([]string, bool) {
	cls := []string{fmt.Sprintf("count_%d", c.Count), "skip_from_a_later_execution"}
	if c.AlwaysSkipper {
		cls = append(cls, "another_test_skips_every_time")
	}
	if c.GammaFrom > 0 {
		cls = append(cls, "two_tests_skip_later")
	}
	if c.Upd == "clean" || c.Upd == "true" {
		cls = append(cls, "deleting_mode")
	}
	return cls, true
}

func TestC08_SkipInLaterExecution(t *testing.T) {
	prop[c08LaterCase]{property: "C08", gen: genC08Later, check: checkC08Later, classify: classifyC08Later, weight: 0.15}.run(t)
}

// ---- a snapshot directory nested inside another one, used only by tests that skip in this run ------------------------
//
// `snaps.Dir("__snapshots__/integration")` next to the default `__snapshots__`: the integration tests call snaps.Skip*
// before their first Match* call (no database in this run), the unit tests run. Nothing below the nested directory was
// addressed, nothing of it may be listed or removed.

type c08NestedCase struct {
	Kind  string   `json:"skip_kind"`
	Upd   string   `json:"update_snaps"`
	Sort  bool     `json:"sort"`
	Stale bool     `json:"stale_entry_in_the_default_directory"`
	APIs  []string `json:"apis_of_the_skipped_test"`
	// AllSkip: the unit test skips as well (go test -short, no database): the run makes no Match* call at all
	AllSkip bool `json:"every_test_of_the_program_skips,omitempty"`
}

func checkC08Nested(c c08NestedCase) error {
	cleanModule()
	defer cleanModule()
	nested := Cfg{Dir: strp("__snapshots__/integration")}
	build := func(withSkip bool) map[string]*Node {
		alpha := []Step{
			{Op: "call", API: "snap", Cfg: c08Cfgs["default"], Value: "alpha", Tag: "default"},
			{Op: "call", API: "ssnap", Cfg: c08Cfgs["default"], Value: "alpha standalone", Tag: "default"}}
		if withSkip && c.AllSkip {
			alpha = append([]Step{{Op: "skip", Kind: c.Kind}}, alpha...)
		}
		tests := map[string]*Node{"TestAlpha": {Steps: alpha}}
		var beta []Step
		if withSkip {
			beta = append(beta, Step{Op: "skip", Kind: c.Kind})
		}
		for i, api := range c.APIs {
			val := map[string]string{"snap": "value", "ssnap": "standalone value", "json": `{"a":1}`, "sjson": `{"a":1}`}[api]
			beta = append(beta, Step{Op: "call", API: api, Cfg: nested, Value: fmt.Sprintf("%s", val), Tag: fmt.Sprintf("nested%d", i)})
		}
		beta = append(beta, Step{Op: "sub", Name: "sub1", Steps: []Step{{Op: "call", API: "snap", Cfg: nested, Value: "nested sub"}}})
		tests["TestBeta"] = &Node{Steps: beta}
		return tests
	}
	if _, out, err := runProgram(RunOpts{Pkg: "."}, Scenario{Tests: build(false)}); err != nil {
		return fmt.Errorf("recording run: %v (%s)", err, vhClip(out))
	}
	if c.Stale {
		p := filepath.Join(scnRoot, "__snapshots__", "alpha_test.snap")
		b, _ := os.ReadFile(p)
		os.WriteFile(p, append(b, []byte("\n[TestGone - 1]\nstale body\n---\n")...), 0o644)
	}
	ageDir(scnRoot)
	before := createdFiles(scnRoot)
	nestedFiles := 0
	for p := range before {
		if strings.HasPrefix(p, filepath.Join("__snapshots__", "integration")+string(filepath.Separator)) {
			nestedFiles++
		}
	}
	if nestedFiles == 0 {
		return fmt.Errorf("harness/location: recording created nothing below __snapshots__/integration: %v", before)
	}
	_, out, err := runProgram(RunOpts{Pkg: ".", Upd: c.Upd, UpdSet: c.Upd != ""}, Scenario{Tests: build(true), Clean: CleanSpec{Call: true, Sort: c.Sort}})
	if err != nil {
		return fmt.Errorf("run: %v (%s)", err, vhClip(out))
	}
	after := createdFiles(scnRoot)
	sum := parseSummaryLists(out)
	for _, f := range sum.Files {
		if strings.Contains(f, "integration") {
			return fmt.Errorf("file %q of the nested directory (its tests called snaps.%s) is listed as obsolete", f, c.Kind)
		}
	}
	for _, id := range sum.Tests {
		if strings.HasPrefix(id, "TestBeta") {
			return fmt.Errorf("entry %q of a test that called snaps.%s is listed as obsolete", id, c.Kind)
		}
	}
	if c.AllSkip && !c.Stale && (len(sum.Files) > 0 || len(sum.Tests) > 0) {
		return fmt.Errorf("every test of the program called snaps.%s, but Clean lists obsolete items: files %q tests %q", c.Kind, sum.Files, sum.Tests)
	}
	for p, b := range before {
		if !strings.HasPrefix(p, filepath.Join("__snapshots__", "integration")) && !(c.AllSkip && strings.HasPrefix(p, "__snapshots__")) {
			continue
		}
		a, ok := after[p]
		if !ok {
			return fmt.Errorf("%q (nested directory, owner skipped through snaps.%s, UPDATE_SNAPS=%q) was removed", p, c.Kind, c.Upd)
		}
		if !b.IsDir && (a.Data != b.Data || !a.Mtime.Equal(b.Mtime)) {
			return fmt.Errorf("%q (nested directory, owner skipped) was written", p)
		}
	}
	return nil
}

func TestC08_NestedDirectorySkipped(t *testing.T) {
	prop[c08NestedCase]{property: "C08", check: checkC08Nested, weight: 0.1,
		gen: func(t *rapid.T) c08NestedCase {
			return c08NestedCase{Kind: rapid.SampledFrom([]string{"Skip", "Skipf", "SkipNow", "SkipBare"}).Draw(t, "kind"), Upd: rapid.SampledFrom([]string{"", "clean", "clean", "true"}).Draw(t, "upd"),
				Sort: rapid.Bool().Draw(t, "sort"), Stale: rapid.Bool().Draw(t, "stale"), AllSkip: rapid.IntRange(0, 2).Draw(t, "allskip") == 0,
				APIs: rapid.SliceOfN(rapid.SampledFrom([]string{"snap", "json", "ssnap", "sjson"}), 1, 3).Draw(t, "apis")}
		},
		classify: func(c c08NestedCase) ([]string, bool) {
			cls := []string{"nested_snapshot_directory_whose_tests_skip"}
			if c.Upd != "" {
				cls = append(cls, "deleting_mode")
			}
			return cls, true
		}}.run(t)
}
