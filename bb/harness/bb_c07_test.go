//go:build verif

// Black-box cross-checks with the real runner: C07 (real -test.count / -test.run, Clean in TestMain keeps what was matched)
// and C20 (the Snapshot Summary printed by a real process adds up).
package bbh

import (
	"fmt"
	"os"
	"path/filepath"
	"regexp"
	"strconv"
	"strings"
	"testing"

	"pgregory.net/rapid"
)

type bbCleanCase struct {
	Tests  map[string][]Step `json:"tests"`
	Count  int               `json:"count"`
	Cpu    string            `json:"test_cpu,omitempty"` // -test.cpu of the run under test (C07 only): "1," runs once, "1,2" twice per count
	Run    string            `json:"run"`
	Upd    string            `json:"update_snaps"`
	Sort   bool              `json:"sort"`
	Stale  []string          `json:"stale_entries"`
	Change []string          `json:"changed_tags"` // tags of calls whose value differs in the second run (C20: failed / updated outcomes)
	Skips  []string          `json:"skips"`
}

func genBBClean(t *rapid.T, forSummary bool) bbCleanCase {
	c := bbCleanCase{Tests: map[string][]Step{}, Count: rapid.SampledFrom([]int{1, 1, 2, 3}).Draw(t, "count")}
	ntests := rapid.IntRange(1, 4).Draw(t, "ntests")
	perm := rapid.Permutation(vhIndices(len(c08Pool))).Draw(t, "tests")
	tag := 0
	var tags []string
	var tagSteps func(steps []Step) []Step
	tagSteps = func(steps []Step) []Step {
		for i := range steps {
			if steps[i].Op == "call" {
				tag++
				steps[i].Tag = fmt.Sprintf("%s#%d", steps[i].Tag, tag)
				tags = append(tags, steps[i].Tag)
			}
			steps[i].Steps = tagSteps(steps[i].Steps)
		}
		return steps
	}
	for _, i := range perm[:ntests] {
		c.Tests[c08Pool[i].test] = tagSteps(genC08Steps(t, 2, []string{"sub1", "sub2", "deep", "10", "9"}))
	}
	// -run patterns that select every test of the program (the statement quantifies over runs in which the slots are addressed)
	var tops []string
	for top := range c.Tests {
		tops = append(tops, "^"+regexp.QuoteMeta(top)+"$")
	}
	c.Run = rapid.SampledFrom([]string{"", "", "Test", ".", strings.Join(tops, "|")}).Draw(t, "run")
	c.Upd = rapid.SampledFrom([]string{"", "clean", "true"}).Draw(t, "upd")
	c.Sort = rapid.Bool().Draw(t, "sort")
	if !forSummary && rapid.IntRange(0, 2).Draw(t, "cpu") == 0 {
		c.Cpu = rapid.SampledFrom([]string{"1,", "2,", ",1", "1,2", "1,1,1"}).Draw(t, "cpulist")
	}
	names := allNames(c.Tests)
	for i := rapid.IntRange(0, 3).Draw(t, "nstale"); i > 0; i-- {
		c.Stale = append(c.Stale, fmt.Sprintf("%s|%s - %d", rapid.SampledFrom([]string{"default", "shared"}).Draw(t, "stalecfg"), rapid.SampledFrom(names).Draw(t, "stalename"), rapid.IntRange(20, 22).Draw(t, "staleord")))
	}
	if forSummary {
		for _, tg := range tags {
			if rapid.IntRange(0, 3).Draw(t, "change") == 0 {
				c.Change = append(c.Change, tg)
			}
		}
		for i := rapid.IntRange(0, 2).Draw(t, "nskips"); i > 0; i-- {
			name := rapid.SampledFrom(names).Draw(t, "skipname")
			if _, dup := skipPoint(c.Skips, name); dup {
				continue
			}
			c.Skips = append(c.Skips, fmt.Sprintf("%s@%d:%s", name, rapid.IntRange(0, len(stepsOf(c.Tests, name))).Draw(t, "skipat"), rapid.SampledFrom([]string{"Skip", "Skipf", "SkipNow"}).Draw(t, "skipkind")))
		}
	}
	return c
}

func changeValues(steps []Step, changed map[string]bool) []Step {
	out := make([]Step, len(steps))
	for i, st := range steps {
		out[i] = st
		if st.Op == "call" && changed[st.Tag] {
			switch st.API {
			case "json", "sjson":
				out[i].Value = `{"a":2,"changed":true}`
			default:
				out[i].Value = st.Value + " (changed)"
			}
		}
		out[i].Steps = changeValues(st.Steps, changed)
	}
	return out
}

func (c bbCleanCase) prepare() (map[string][]string, error) {
	cleanModule()
	plain := map[string]*Node{}
	for top, steps := range c.Tests {
		plain[top] = &Node{Steps: steps}
	}
	if _, out, err := runProgram(RunOpts{Pkg: "."}, Scenario{Tests: plain}); err != nil {
		return nil, fmt.Errorf("recording run: %v (%s)", err, vhClip(out))
	}
	dir := filepath.Join(scnRoot, "__snapshots__")
	staleIDs := map[string][]string{}
	for _, s := range c.Stale {
		bar := strings.Index(s, "|")
		kind, id := s[:bar], s[bar+1:]
		file := filepath.Join(dir, "alpha_test.snap")
		if kind == "shared" {
			file = filepath.Join(dir, "shared.snap")
		}
		b, err := os.ReadFile(file)
		if err != nil {
			continue
		}
		if es, _ := refParse(string(b)); findEntry(es, id) >= 0 {
			continue
		}
		os.WriteFile(file, append(b, []byte("\n["+id+"]\nstale body\n---\n")...), 0o644)
		staleIDs[file] = append(staleIDs[file], id)
	}
	return staleIDs, nil
}

// C07 with the real runner
func checkC07BB(c bbCleanCase) error {
	defer cleanModule()
	if _, err := c.prepare(); err != nil {
		return err
	}
	slots := programSlots(c.Tests)
	ageDir(scnRoot)
	before := createdFiles(scnRoot)
	plain := map[string]*Node{}
	for top, steps := range c.Tests {
		plain[top] = &Node{Steps: steps}
	}
	res, out, err := runProgram(RunOpts{Pkg: ".", Run: c.Run, Count: c.Count, Cpu: c.Cpu, Upd: c.Upd, UpdSet: c.Upd != ""}, Scenario{Tests: plain, Clean: CleanSpec{Call: true, Sort: c.Sort}})
	if err != nil {
		return fmt.Errorf("run: %v (%s)", err, vhClip(out))
	}
	for _, cr := range res.Calls {
		if len(cr.Errors) != 0 || len(cr.Logs) != 0 {
			return fmt.Errorf("replay with -count=%d -run=%q: call in %s signalled errors=%q logs=%q", c.Count, c.Run, cr.Test, cr.Errors, cr.Logs)
		}
	}
	after := createdFiles(scnRoot)
	sum := parseSummaryLists(out)
	listed := map[string]bool{}
	for _, f := range sum.Files {
		listed[f] = true
	}
	rel := func(p string) string { r, _ := filepath.Rel(scnRoot, p); return r }
	for _, s := range slots {
		if !res.started(s.owner) {
			return fmt.Errorf("harness: %s did not start with -run %q", s.owner, c.Run)
		}
		pre, post := before[rel(s.file)], after[rel(s.file)]
		if _, ok := after[rel(s.file)]; !ok {
			return fmt.Errorf("-count=%d -run=%q UPDATE_SNAPS=%q: file %q was matched in this run but Clean deleted it", c.Count, c.Run, c.Upd, rel(s.file))
		}
		if listed[s.file] {
			return fmt.Errorf("-count=%d: file %q was matched in this run but is listed as obsolete", c.Count, rel(s.file))
		}
		if s.id == "" {
			if pre.Data != post.Data {
				return fmt.Errorf("standalone file %q was matched in this run but changed", rel(s.file))
			}
			continue
		}
		pe, _ := refParse(pre.Data)
		qe, perr := refParse(post.Data)
		if perr != nil {
			return fmt.Errorf("file %q not well formed after Clean: %v", rel(s.file), perr)
		}
		i, j := findEntry(pe, s.id), findEntry(qe, s.id)
		if i < 0 {
			continue
		}
		if j < 0 {
			return fmt.Errorf("-count=%d -run=%q UPDATE_SNAPS=%q sort=%v: entry %q was matched in this run but Clean removed it (summary %q)", c.Count, c.Run, c.Upd, c.Sort, s.id, vhClip(sum.Raw))
		}
		if pe[i].Body != qe[j].Body {
			return fmt.Errorf("entry %q was matched in this run but Clean altered it", s.id)
		}
		for _, id := range sum.Tests {
			if id == s.id {
				return fmt.Errorf("entry %q was matched in this run (count %d) but the summary lists it as obsolete", s.id, c.Count)
			}
		}
	}
	return nil
}

func classifyBBClean(c bbCleanCase) ([]string, bool) {
	var cls []string
	if c.Cpu != "" {
		cls = append(cls, "test_cpu_list")
	}
	if c.Count > 1 {
		cls = append(cls, "count_gt_1")
	}
	if c.Run != "" {
		cls = append(cls, "run_filter")
	}
	if c.Upd != "" {
		cls = append(cls, "clean_mode")
	}
	if c.Sort {
		cls = append(cls, "sort")
	}
	if len(c.Stale) > 0 {
		cls = append(cls, "stale_neighbours")
	}
	if len(c.Change) > 0 {
		cls = append(cls, "changed_values")
	}
	if len(c.Skips) > 0 {
		cls = append(cls, "skips")
	}
	return cls, c.Count > 1 || len(c.Stale) > 0 || len(c.Change) > 0 || len(c.Skips) > 0
}

func TestC07BB_RealRunner(t *testing.T) {
	prop[bbCleanCase]{property: "C07", gen: func(t *rapid.T) bbCleanCase { return genBBClean(t, false) }, check: checkC07BB, classify: classifyBBClean}.run(t)
}

// C20 with the real runner: totals printed by the process == tallies of what the tests were told
var summaryLine = regexp.MustCompile(`(?m)^(✓|✕|✎|⟳) (\d+) snapshots? (passed|failed|added|updated|skipped)$`)

func checkC20BB(c bbCleanCase) error {
	defer cleanModule()
	if _, err := c.prepare(); err != nil {
		return err
	}
	changed := map[string]bool{}
	for _, tg := range c.Change {
		changed[tg] = true
	}
	tests := map[string][]Step{}
	for top, steps := range c.Tests {
		tests[top] = changeValues(steps, changed)
	}
	res, out, err := runProgram(RunOpts{Pkg: ".", Upd: c.Upd, UpdSet: c.Upd != ""}, Scenario{Tests: withSkips(tests, c.Skips), Clean: CleanSpec{Call: true, Sort: c.Sort}})
	if err != nil {
		return fmt.Errorf("run: %v (%s)", err, vhClip(out))
	}
	tally := map[string]int{}
	for i := range res.Calls {
		o := outcomeOfCall(&res.Calls[i])
		if o != "passed" && o != "added" && o != "updated" && o != "failed" {
			return fmt.Errorf("call in %s: %s", res.Calls[i].Test, o)
		}
		tally[o]++
	}
	skips := 0
	for _, s := range c.Skips {
		if res.started(s[:strings.LastIndex(s, "@")]) {
			skips++
		}
	}
	got := map[string]int{}
	for _, m := range summaryLine.FindAllStringSubmatch(out, -1) {
		n, _ := strconv.Atoi(m[2])
		got[m[3]] = n
	}
	for _, k := range []string{"passed", "failed", "added", "updated"} {
		if got[k] != tally[k] {
			return fmt.Errorf("summary of the process shows %d %s, the tests were signalled %d (tallies %v, summary %q)", got[k], k, tally[k], tally, vhClip(out))
		}
	}
	if got["skipped"] != skips {
		return fmt.Errorf("summary of the process shows %d skipped, %d snaps.Skip* calls were made (%v); summary %q", got["skipped"], skips, c.Skips, vhClip(out))
	}
	return nil
}

func TestC20BB_RealProcess(t *testing.T) {
	prop[bbCleanCase]{property: "C20", gen: func(t *rapid.T) bbCleanCase { return genBBClean(t, true) }, check: checkC20BB, classify: classifyBBClean}.run(t)
}
