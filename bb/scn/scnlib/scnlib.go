// Package scnlib: data-driven test program used by the black-box checks. It uses only the public go-snaps API.
// A scenario (JSON file named by $VERIF_SCN) says what every test function of the program does.
package scnlib

import (
	"encoding/json"
	"fmt"
	"os"
	"path/filepath"
	"sort"
	"sync"
	"testing"

	"github.com/gkampitakis/go-snaps/snaps"
)

type Cfg struct {
	Default  bool    `json:"default,omitempty"` // package-level functions, no Config
	Dir      *string `json:"dir,omitempty"`
	Filename string  `json:"filename,omitempty"`
	Ext      string  `json:"ext,omitempty"`
	Update   *bool   `json:"update,omitempty"`
}

type Step struct {
	Op       string `json:"op"` // call | skip | sub
	API      string `json:"api,omitempty"`
	Cfg      Cfg    `json:"cfg,omitempty"`
	Value    string `json:"value,omitempty"`
	Shape    string `json:"shape,omitempty"` // direct | closure | helper_same | helper_nontest | helper_pkg
	Depth    int    `json:"depth,omitempty"`
	Kind     string `json:"kind,omitempty"` // skip: Skip | Skipf | SkipNow
	Name     string `json:"name,omitempty"` // sub
	Parallel bool   `json:"parallel,omitempty"`
	Steps    []Step `json:"steps,omitempty"`
	Tag      string `json:"tag,omitempty"` // free label echoed in the result
	Suite    bool   `json:"suite,omitempty"` // sub: the subtest function is declared in the non-test file suite.go
	// FromExec (skip): the step only skips from this execution of the test on (1-based, -count=N runs every test N times):
	// a resource that is gone after the first run, state that can be set up only once per process
	FromExec int `json:"from_execution,omitempty"`
}

type Node struct {
	Steps []Step `json:"steps"`
}

type Scenario struct {
	Tests map[string]*Node `json:"tests"`
	Clean struct {
		Call bool `json:"call"`
		Sort bool `json:"sort"`
	} `json:"clean"`
}

type CallResult struct {
	Test   string   `json:"test"`
	Tag    string   `json:"tag,omitempty"`
	API    string   `json:"api"`
	Errors []string `json:"errors"`
	Logs   []string `json:"logs"`
}

type Result struct {
	Started []string     `json:"started"`
	Calls   []CallResult `json:"calls"`
	Cleaned bool         `json:"cleaned"`
}

var (
	mu       sync.Mutex
	scn      *Scenario
	result   Result
	loadOnce sync.Once
)

func Load() *Scenario {
	loadOnce.Do(func() {
		scn = &Scenario{Tests: map[string]*Node{}}
		p := os.Getenv("VERIF_SCN")
		if p == "" {
			return
		}
		b, err := os.ReadFile(p)
		if err != nil {
			panic(err)
		}
		if err := json.Unmarshal(b, scn); err != nil {
			panic(err)
		}
	})
	return scn
}

// RecT wraps the real *testing.T: go-snaps' reports are recorded instead of failing the real test.
type RecT struct {
	T      *testing.T
	mu     sync.Mutex
	errors []string
	logs   []string
	failed bool
}

var executions = map[string]int{}

func Wrap(t *testing.T) *RecT {
	mu.Lock()
	result.Started = append(result.Started, t.Name())
	executions[t.Name()]++
	mu.Unlock()
	return &RecT{T: t}
}

// DoSkipStep performs a skip step (see Step.FromExec).
func DoSkipStep(rt *RecT, st Step) {
	mu.Lock()
	n := executions[rt.Name()]
	mu.Unlock()
	if st.FromExec > 0 && n < st.FromExec {
		return
	}
	DoSkip(rt, st.Kind)
}

func (r *RecT) Helper()                  { r.T.Helper() }
func (r *RecT) Skip(a ...any)            { r.T.Skip(a...) }
func (r *RecT) Skipf(f string, a ...any) { r.T.Skipf(f, a...) }
func (r *RecT) SkipNow()                 { r.T.SkipNow() }
func (r *RecT) Name() string             { return r.T.Name() }
func (r *RecT) Cleanup(f func())         { r.T.Cleanup(f) }
func (r *RecT) Error(a ...any) {
	r.mu.Lock()
	r.errors = append(r.errors, fmt.Sprint(a...))
	r.failed = true
	r.mu.Unlock()
}

// Failed / Skipped: what a *testing.T answers about itself (the recorded errors do not fail the real test, but the test
// the library sees HAS failed once Error was called).
func (r *RecT) Failed() bool {
	r.mu.Lock()
	defer r.mu.Unlock()
	return r.failed || r.T.Failed()
}
func (r *RecT) Skipped() bool { return r.T.Skipped() }
func (r *RecT) Log(a ...any) {
	r.mu.Lock()
	r.logs = append(r.logs, fmt.Sprint(a...))
	r.mu.Unlock()
}

// Report stores what go-snaps told the test during one call.
func (r *RecT) Report(st Step) {
	r.mu.Lock()
	cr := CallResult{Test: r.T.Name(), Tag: st.Tag, API: st.API, Errors: r.errors, Logs: r.logs}
	r.errors, r.logs = nil, nil
	r.mu.Unlock()
	if cr.Errors == nil {
		cr.Errors = []string{}
	}
	if cr.Logs == nil {
		cr.Logs = []string{}
	}
	mu.Lock()
	result.Calls = append(result.Calls, cr)
	mu.Unlock()
}

func BuildConfig(c Cfg) *snaps.Config {
	var opts []func(*snaps.Config)
	if c.Dir != nil {
		opts = append(opts, snaps.Dir(*c.Dir))
	}
	if c.Filename != "" {
		opts = append(opts, snaps.Filename(c.Filename))
	}
	if c.Ext != "" {
		opts = append(opts, snaps.Ext(c.Ext))
	}
	if c.Update != nil {
		opts = append(opts, snaps.Update(*c.Update))
	}
	return snaps.WithConfig(opts...)
}

// DoCall performs the Match* call from this package (a non-test file of another package).
func DoCall(rt *RecT, st Step) {
	if st.Cfg.Default {
		switch st.API {
		case "snap":
			snaps.MatchSnapshot(rt, st.Value)
		case "json":
			snaps.MatchJSON(rt, st.Value)
		case "yaml":
			snaps.MatchYAML(rt, st.Value)
		case "ssnap":
			snaps.MatchStandaloneSnapshot(rt, st.Value)
		case "sjson":
			snaps.MatchStandaloneJSON(rt, st.Value)
		}
	} else {
		c := BuildConfig(st.Cfg)
		switch st.API {
		case "snap":
			c.MatchSnapshot(rt, st.Value)
		case "json":
			c.MatchJSON(rt, st.Value)
		case "yaml":
			c.MatchYAML(rt, st.Value)
		case "ssnap":
			c.MatchStandaloneSnapshot(rt, st.Value)
		case "sjson":
			c.MatchStandaloneJSON(rt, st.Value)
		}
	}
	rt.Report(st)
}

// DoCallDepth adds depth helper frames (all in this non-test file) before the call.
func DoCallDepth(rt *RecT, st Step, depth int) {
	if depth > 0 {
		DoCallDepth(rt, st, depth-1)
		return
	}
	DoCall(rt, st)
}

// DoChdir changes the working directory of the process for good (a CLI test that chdirs into a fixture directory and
// never comes back): everything that runs later in the process sees the other directory.
func DoChdir() {
	// (below the scenario's own io directory, which the harness removes: nothing is left in the system's temp directory)
	d, err := os.MkdirTemp(filepath.Dir(os.Getenv("VERIF_SCN")), "scn-chdir")
	if err == nil {
		os.Chdir(d)
	}
}

func DoSkip(rt *RecT, kind string) {
	switch kind {
	case "Skipf":
		snaps.Skipf(rt, "skipped by scenario %s", rt.Name())
	case "SkipNow":
		snaps.SkipNow(rt)
	case "SkipBare":
		snaps.Skip(rt) // no reason given
	default:
		snaps.Skip(rt, "skipped by scenario")
	}
}

// Finish is called from TestMain after m.Run().
func Finish(m *testing.M) {
	s := Load()
	if s.Clean.Call {
		if s.Clean.Sort {
			snaps.Clean(m, snaps.CleanOpts{Sort: true})
		} else {
			snaps.Clean(m)
		}
		result.Cleaned = true
	}
	mu.Lock()
	sort.Strings(result.Started)
	b, _ := json.Marshal(result)
	mu.Unlock()
	if p := os.Getenv("VERIF_RESULT"); p != "" {
		if err := os.WriteFile(p, b, 0o644); err != nil {
			panic(err)
		}
	}
}
