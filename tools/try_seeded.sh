#!/bin/bash
# usage: try_seeded.sh <ID>-<v> [prop] : runs the quick check of the property (default: the change's own) against the stored change, seeds 1..3
M=$1; P=${2:-${M%%-*}}
V=$(cd "$(dirname "$0")/.." && pwd)
for s in 1 2 3; do
  r=$(VERIF_SEED=$s $V/tools/with_patch.sh $V/seeded/$M/patch.diff $V/check $P quick 2>&1 | grep -E "^(OK|VIOLATION|INCONCLUSIVE|\[inconclusive)" | head -1 | cut -c1-120)
  case "$r" in VIOLATION*) echo "$M on $P: killed (seed $s)"; exit 0;; OK*) ;; *) echo "$M on $P: $r"; exit 2;; esac
done
echo "$M on $P: SURVIVED"
exit 1
