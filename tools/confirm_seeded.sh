#!/bin/bash
# usage: confirm_seeded.sh <dir with patch.diff, demo.sh> : verifies the three claims about a seeded change in a scratch copy of /repo.
export GOFLAGS=-mod=mod GOPROXY=off GOSUMDB=off GOTOOLCHAIN=local
D=$(cd "$1" && pwd)
COPY=$(mktemp -d /tmp/seedrepo-XXXXXX)
cp -r /repo/. "$COPY"/
trap 'rm -rf "$COPY" "$COPY".*.log' EXIT
res=""
bash "$D/demo.sh" "$COPY" >$COPY.demo-clean.log 2>&1; r1=$?
git -C "$COPY" status --porcelain | grep -q . && { git -C "$COPY" checkout -q -- . ; git -C "$COPY" clean -fdq; }
git -C "$COPY" apply "$D/patch.diff" || { echo "APPLY_FAILED"; exit 1; }
VERIF_REPO="$COPY" /verif/tools/baseline.sh >$COPY.suite.log 2>&1; r2=$?
suite=$(grep "^passed=" $COPY.suite.log)
bash "$D/demo.sh" "$COPY" >$COPY.demo-mut.log 2>&1; r3=$?
echo "demo_on_clean_rc=$r1 suite_with_patch_rc=$r2 ($suite) demo_with_patch_rc=$r3"
[ $r1 -eq 0 ] && [ $r2 -eq 0 ] && [ $r3 -ne 0 ]
