#!/bin/bash
# usage: with_patch.sh [-R] <patch.diff> <command...>
# Runs the command against a scratch copy of /repo with the patch applied (VERIF_REPO points at the copy);
# evidence and replay files go to a scratch directory that is removed as well;
# /repo itself is never touched, so background runs are not disturbed. The copy is removed afterwards.
REV=""
if [ "$1" = "-R" ]; then REV="-R"; shift; fi
PATCH=$(readlink -f "$1"); shift
COPY=$(mktemp -d /tmp/mutrepo-XXXXXX)
cp -r /repo/. "$COPY"/
git -C "$COPY" apply $REV "$PATCH" || { echo "patch does not apply"; rm -rf "$COPY"; exit 3; }
git -C "$COPY" -c user.email=x@x -c user.name=x commit -qam mutant >/dev/null 2>&1
OUT=$(mktemp -d /tmp/mutout-XXXXXX)
VERIF_REPO="$COPY" VERIF_EVIDENCE_DIR="$OUT/evidence" VERIF_REPLAY_DIR="$OUT/replays" "$@"; rc=$?
rm -rf "$COPY" "$OUT"
exit $rc
