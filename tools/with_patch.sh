#!/bin/bash
# usage: with_patch.sh [-R] <patch.diff> <command...>   — applies the patch to /repo, runs the command, undoes it.
REV=""
if [ "$1" = "-R" ]; then REV="-R"; shift; fi
PATCH=$1; shift
if [ -n "$(git -C /repo status --porcelain)" ]; then echo "repo dirty"; exit 3; fi
git -C /repo apply $REV "$PATCH" || { echo "patch does not apply"; exit 3; }
"$@"; rc=$?
git -C /repo checkout -- . && git -C /repo clean -fdq
exit $rc
