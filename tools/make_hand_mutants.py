#!/usr/bin/env python3
"""Creates selftest/hand_*.diff from textual replacements on a scratch copy of /repo, keeping only those on which the
repository's own suite still passes. Developer tool (not used by any registered command)."""
import os, shutil, subprocess, sys, tempfile, json

M = [
 ("h01_trimright", ["C01"], "snaps/snapshot.go", 'return strings.TrimSuffix(snapshot.String(), "\\n"), lineNumber, nil', 'return strings.TrimRight(snapshot.String(), "\\n"), lineNumber, nil', False),
 ("h02_default_scanner_buffer", ["C01"], "snaps/utils.go", '	s.Buffer([]byte{}, math.MaxInt)\n', '	_ = math.MaxInt\n', False),
 ("h03_diff_trimspace", ["C02", "C13"], "snaps/diff.go", '	if expected == received {\n		return ""\n	}\n	differ := getUnifiedDiff', '	if strings.TrimSpace(expected) == strings.TrimSpace(received) {\n		return ""\n	}\n	differ := getUnifiedDiff', False),
 ("h04_no_reset_cleanup", ["C03"], "snaps/matchSnapshot.go", '	t.Cleanup(func() {\n		testsRegistry.reset(snapPath, t.Name())\n	})\n', '', False),
 ("h05_no_truncate", ["C04"], "snaps/snapshot.go", '	f.Truncate(0)\n', '', False),
 ("h06_clean_only_true", ["C05"], "snaps/utils.go", 'shouldClean     = updateVAR == "true" || updateVAR == "clean"', 'shouldClean     = updateVAR == "true"', False),
 ("h07_create_ignores_option", ["C05"], "snaps/utils.go", '''func shouldCreate(u *bool) bool {
	if isCI {
		return false
	}

	if u != nil {
		return *u
	}

	return true''', '''func shouldCreate(u *bool) bool {
	if isCI {
		return false
	}

	return true''', False),
 ("h08_drop_count_division", ["C07"], "snaps/clean.go", '		counter = counter / count\n', '		_ = count\n', False),
 ("h09_hassuffix_snap", ["C09"], "snaps/clean.go", 'content.IsDir() || !strings.Contains(content.Name(), snapsExt)', 'content.IsDir() || !strings.HasSuffix(content.Name(), snapsExt)', False),
 ("h10_lexical_sort", ["C10"], "snaps/clean.go", '	if natural.Less(a, b) {\n		return -1\n	}\n	return 1', '	_ = natural.Less\n	return strings.Compare(a, b)', False),
 ("h11_deleted_count_once", ["C13"], "snaps/diff.go", '				for _, line := range aLines[i1:i2] {\n					colors.FprintDelete(&s, line)\n					deleted++\n				}', '				for _, line := range aLines[i1:i2] {\n					colors.FprintDelete(&s, line)\n				}\n				deleted++', False),
 ("h12_default_sortkeys_false", ["C14"], "snaps/matchJSON.go", '		SortKeys: true,\n		Indent:   " ",', '		SortKeys: false,\n		Indent:   " ",', False),
 ("h13_bytes_skip_validation", ["C14"], "snaps/matchJSON.go", '		if !gjson.ValidBytes(j) {\n			return nil, errInvalidJSON\n		}\n\n		return j, nil', '		return j, nil', False),
 ("h16_yaml_trimspace", ["C18"], "snaps/matchYAML.go", '		return []byte(y), nil\n	case []byte:', '		return []byte(strings.TrimSpace(y)), nil\n	case []byte:', False),
 ("h17_standalone_newline", ["C19"], "snaps/snapshot.go", 'return os.WriteFile(snapPath, []byte(snapshot), os.ModePerm)', 'return os.WriteFile(snapPath, []byte(snapshot+"\\n"), os.ModePerm)', False),
 ("h18_updated_counted_added", ["C20"], "snaps/matchJSON.go", '	t.Log(updatedMsg)\n	testEvents.register(updated)', '	t.Log(updatedMsg)\n	testEvents.register(added)', False),
 ("h20_dir_base", ["C11"], "snaps/snapshot.go", 'dir = filepath.Join(filepath.Dir(callerFilename), c.snapsDir)', 'dir = filepath.Join(filepath.Dir(callerFilename), filepath.Base(c.snapsDir))', False),
 ("h21_update_rlock", ["C06"], "snaps/snapshot.go", '	_m.Lock()\n	defer _m.Unlock()\n	f, err := os.OpenFile(snapPath, os.O_RDWR, os.ModePerm)', '	_m.RLock()\n	defer _m.RUnlock()\n	f, err := os.OpenFile(snapPath, os.O_RDWR, os.ModePerm)', False),
 ("h22_skip_prefix_no_slash", ["C08", "C09"], "snaps/skip.go", 'strings.HasPrefix(testName, name+"/")', 'strings.HasPrefix(testName, name)', False),
 ("h23_escape_first_only", ["C01", "C18"], "snaps/snapshot.go", '''	for idx, s := range ss {
		if s == endSequence {
			ss[idx] = "/-/-/-/"
		}
	}
	return strings.Join(ss, "\\n")''', '''	for idx, s := range ss {
		if s == endSequence {
			ss[idx] = "/-/-/-/"
			break
		}
	}
	return strings.Join(ss, "\\n")''', False),
 ("h24_matchers_reverse_order", ["C15"], "snaps/matchJSON.go", '	for _, m := range matchers {\n		json, errs := m.JSON(b)', '	for i := len(matchers) - 1; i >= 0; i-- {\n		m := matchers[i]\n		json, errs := m.JSON(b)', False),
 ("h25_any_after_compare", ["C16"], "match/any.go", '		j, err := sjson.SetBytesOptions(json, path, a.placeholder, setJSONOptions)', '		if r.Type == gjson.Number {\n			continue\n		}\n		j, err := sjson.SetBytesOptions(json, path, a.placeholder, setJSONOptions)', False),
 ("h26_matcher_error_continues", ["C17"], "snaps/matchYAML.go", '		handleError(t, s.String())\n		return\n	}\n\n	snapshot := takeYAMLSnapshot(y)', '		handleError(t, s.String())\n	}\n\n	snapshot := takeYAMLSnapshot(y)', False),
 ("h27_ci_precedence_update", ["C05", "C02"], "snaps/utils.go", '''func shouldUpdate(u *bool) bool {
	if isCI {
		return false
	}

	if u != nil {
		return *u
	}
''', '''func shouldUpdate(u *bool) bool {
	if u != nil {
		return *u
	}

	if isCI {
		return false
	}
''', False),
 # negative controls: behaviour preserving (or property preserving) changes that must NOT be flagged
 ("n01_range_threshold", ["C13", "C02"], "snaps/diff.go", 'if len(aLines) > 10 || len(bLines) > 10 {', 'if len(aLines) > 8 || len(bLines) > 8 {', True),
 ("n02_two_writes_under_lock", ["C06", "C03", "C01"], "snaps/snapshot.go", '	_, err = fmt.Fprintf(f, "\\n%s\\n%s\\n---\\n", testID, snapshot)\n	return err', '	if _, err = fmt.Fprintf(f, "\\n%s\\n", testID); err != nil {\n		return err\n	}\n	_, err = fmt.Fprintf(f, "%s\\n---\\n", snapshot)\n	return err', True),
 ("n03_always_grow_builder", ["C01", "C04"], "snaps/snapshot.go", '		var snapshot strings.Builder\n', '		var snapshot strings.Builder\n		snapshot.Grow(64)\n', True),
 ("n04_summary_wording_hint", ["C09", "C20", "C07"], "snaps/clean.go", '"\\nTo remove %s, re-run tests with `UPDATE_SNAPS=clean go test ./...`\\n"', '"\\nTo remove %s, run the tests again with `UPDATE_SNAPS=clean go test ./...`\\n"', True),
]

def sh(cmd, **kw):
    return subprocess.run(cmd, stdout=subprocess.PIPE, stderr=subprocess.STDOUT, **kw)

out = []
for mid, props, path, old, new, neg in M:
    copy = tempfile.mkdtemp(prefix="handmut-")
    try:
        sh(["cp", "-r", "/repo/.", copy])
        p = os.path.join(copy, path)
        s = open(p).read()
        if s.count(old) != 1:
            print(mid, "PATTERN NOT FOUND x%d" % s.count(old)); continue
        open(p, "w").write(s.replace(old, new))
        b = sh(["go", "build", "./..."], cwd=copy, env=dict(os.environ, GOFLAGS="-mod=mod", GOPROXY="off", GOTOOLCHAIN="local"))
        if b.returncode != 0:
            print(mid, "DOES NOT BUILD", b.stdout.decode()[:300]); continue
        r = sh(["/verif/tools/baseline.sh"], env=dict(os.environ, VERIF_REPO=copy))
        lines = [l for l in r.stdout.decode().splitlines() if l.startswith(("passed=", "FAIL "))]
        first = lines[0] if lines else ""
        if r.returncode != 0:
            print(mid, "caught by the existing suite:", first, lines[1:3]); continue
        d = sh(["git", "-C", copy, "diff"]).stdout.decode()
        open("/verif/selftest/hand_%s.diff" % mid, "w").write(d)
        out.append(dict(id="hand-" + mid, patch="selftest/hand_%s.diff" % mid, props=props, **({"negative_control": True} if neg else {})))
        print(mid, "ok:", first)
    finally:
        shutil.rmtree(copy, ignore_errors=True)
json.dump(out, open("/verif/selftest/hand_mutants.json", "w"), indent=1)
