#!/bin/bash
# Runs the repository's own suite with the verification guard OFF (no build tag, no overlay): the stable baseline.
# stdout: the `go test -json` event stream (same shape as the pinned baseline command); stderr: "passed=N failed=M" + failing tests.
# exit 0 iff no test failed and at least one passed.
export GOFLAGS=-mod=mod GOPROXY=off GOSUMDB=off GOTOOLCHAIN=local
REPO=${VERIF_REPO:-/repo}
cd "$REPO" || exit 2
go test -json -vet=off -count=1 -timeout 25m ./... 2>&1 | python3 -c '
import sys, json
p=f=0; failed=[]
for l in sys.stdin:
    sys.stdout.write(l)
    try: e=json.loads(l)
    except Exception: continue
    if e.get("Test") and e.get("Action") in ("pass","fail"):
        if e["Action"]=="pass": p+=1
        else: f+=1; failed.append(e["Package"]+"::"+e["Test"])
sys.stderr.write("passed=%d failed=%d\n"%(p,f))
for x in failed: sys.stderr.write("FAIL "+x+"\n")
sys.exit(1 if f or p==0 else 0)
'
