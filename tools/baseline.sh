#!/bin/bash
# Runs the repository's own suite (guard OFF) and prints pass/fail counts in the BASELINE.json naming.
export GOFLAGS=-mod=mod GOPROXY=off GOSUMDB=off GOTOOLCHAIN=local
REPO=${VERIF_REPO:-/repo}
cd "$REPO" || exit 2
go test -json -vet=off -count=1 -timeout 25m ./... 2>&1 | python3 -c '
import sys, json
p=f=0; failed=[]
for l in sys.stdin:
    try: e=json.loads(l)
    except Exception: continue
    if e.get("Test") and e.get("Action") in ("pass","fail"):
        if e["Action"]=="pass": p+=1
        else: f+=1; failed.append(e["Package"]+"::"+e["Test"])
print("passed=%d failed=%d"%(p,f))
for x in failed: print("FAIL",x)
sys.exit(1 if f or p==0 else 0)
'
