#!/bin/bash
# usage: harvest_corpus.sh <patch> <property> <name> : runs the quick check of the property against a mutated scratch copy and
# stores the first shrunk counter-example as corpus/<property>/<name>.json (developer tool).
PATCH=$(readlink -f "$1"); PROP=$2; NAME=$3
RP=$(mktemp -d /tmp/harvest-XXXXXX)
VERIF_REPLAY_DIR=$RP VERIF_EVIDENCE_DIR=$RP/ev /verif/tools/with_patch.sh "$PATCH" /verif/check $PROP quick >/dev/null 2>&1
f=$(ls $RP/$PROP/*.json 2>/dev/null | head -1)
if [ -n "$f" ] && ! grep -q race_report "$f"; then mkdir -p /verif/corpus/$PROP; cp "$f" /verif/corpus/$PROP/$NAME.json; echo "harvested $PROP/$NAME: $(python3 -c "import json,sys; print(json.load(open('$f'))['error'][:120])")"; else echo "nothing harvested for $PROP/$NAME"; fi
rm -rf $RP
