#!/bin/bash
# usage: ingest_seeded.sh <ID> <variant> : confirm /tmp/seeded/<ID>/<variant> (suite passes with the patch, demo fails with it and
# passes without it), then store it as /verif/seeded/<ID>-<variant>/ with the confirmation recorded in meta.json.
ID=$1; V=$2; SRC=/tmp/seeded/$ID/$V; DST=/verif/seeded/$ID-$V
[ -f "$SRC/patch.diff" ] || { echo "$ID-$V: no patch.diff"; exit 2; }
out=$(/verif/tools/confirm_seeded.sh "$SRC" 2>&1 | tail -1); rc=$?
echo "$ID-$V: $out"
echo "$out" | grep -q "demo_on_clean_rc=0 suite_with_patch_rc=0 .* demo_with_patch_rc=[1-9]" || { echo "$ID-$V: NOT CONFIRMED"; exit 1; }
rm -rf "$DST"; mkdir -p "$DST"; cp -r "$SRC"/. "$DST"/
python3 - "$DST/meta.json" "$out" <<'PY'
import json,sys,re,subprocess
p,out=sys.argv[1],sys.argv[2]
m=json.load(open(p))
suite=re.search(r"\((passed=[^)]*)\)",out)
head=subprocess.run(["git","-C","/repo","rev-parse","--short","HEAD"],capture_output=True,text=True).stdout.strip()
m["confirmed_by_harness_author"]={"demo_passes_on_unmodified_tree":True,"suite_passes_with_patch":suite.group(1) if suite else out,"demo_fails_with_patch":True,"how":"tools/confirm_seeded.sh on a scratch copy of /repo at "+head}
json.dump(m,open(p,"w"),indent=1,ensure_ascii=False)
PY
echo "$ID-$V: stored"
