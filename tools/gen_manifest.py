#!/usr/bin/env python3
"""Generates /verif/MANIFEST.json from lib/props.py + lib/manifest_text.py (kept in sync by construction)."""
import json, os, sys
VERIF = os.path.dirname(os.path.dirname(os.path.abspath(__file__)))
sys.path.insert(0, os.path.join(VERIF, "lib"))
from props import PROPS
from manifest_text import TEXT, NOT_APPLICABLE, ENGINES, NOTES

ids = [json.loads(l)["id"] for l in open(os.path.join(VERIF, "properties.jsonl"))]
checks = []
for pid in ids:
    if pid not in PROPS:
        continue
    t = TEXT[pid]
    checks.append(dict(
        property_id=pid,
        quick_cmd="./check %s quick" % pid,
        thorough_cmd="./check %s thorough" % pid,
        evidence_file="/verif/evidence/%s.json" % pid,
        replay_cmd_template="./check --replay %s {path}" % pid,
        engine=t["engine"],
        level_claimed=dict(category="exploration", text=t["level_text"], design_ref=t["design_ref"]),
        level_note=t["level_note"],
        technique=t["technique"],
    ))
na = [dict(property_id=p, reason=NOT_APPLICABLE.get(p, "check not built yet in this round; planned in DESIGN.md §6")) for p in ids if p not in PROPS]
m = dict(
    version=1,
    setup_cmd="./check --setup",
    hooks=dict(
        guard="verif",
        enable="go test -c -tags verif -vet=off -modfile=<scratch copy of go.mod + rapid> -overlay=<scratch json mapping /verif/wb/*.go into /repo/snaps, hiding the repository's own *_test.go, and adding generated files zz_verif_globals*.go (tag verif: re-initialisation of package-level variables) to snaps, match, match/internal/yaml and internal/difflib> ./snaps (run from /repo; black-box checks build a scratch module with `replace github.com/gkampitakis/go-snaps => /repo`)",
        baseline_off_cmd="/verif/tools/baseline.sh",
        source_commits=[],
        add_only=True,
    ),
    engines=ENGINES,
    checks=checks,
    notes=NOTES,
    not_applicable=na,
)
json.dump(m, open(os.path.join(VERIF, "MANIFEST.json"), "w"), indent=1)
print("MANIFEST.json: %d checks, %d not_applicable" % (len(checks), len(na)))
